package main

// C05: crash atomicity and durability.
//  (i)  deterministic: on the on-disk bbolt store, an operation is interrupted at every store call k: the
//       data file as it is on disk at that instant is copied away (what a process kill would leave behind) and
//       reopened; the surviving state must be the state before or after the operation, and equal the model's.
//  (ii) a child process runs a write-heavy workload and is SIGKILLed at a random instant; the parent reopens
//       the directory and audits it (acknowledged operations present, in-flight one all-or-nothing, counters
//       and indexes consistent with the documents).
//  (iii) clean close/reopen after every prefix of a history (stream "hist" with --focus reopen).

import (
	"bufio"
	"fmt"
	"io"
	"os"
	"os/exec"
	"path/filepath"
	"strconv"
	"strings"
	"syscall"
	"time"

	clover "github.com/ostafen/clover/v2"
	d "github.com/ostafen/clover/v2/document"
	"github.com/ostafen/clover/v2/query"
)

type crashSignal struct{ k int64 }

func copyDir(src, dst string) error {
	return filepath.Walk(src, func(p string, info os.FileInfo, err error) error {
		if err != nil {
			return err
		}
		rel, _ := filepath.Rel(src, p)
		target := filepath.Join(dst, rel)
		if info.IsDir() {
			return os.MkdirAll(target, 0o755)
		}
		in, err := os.Open(p)
		if err != nil {
			return err
		}
		defer in.Close()
		out, err := os.Create(target)
		if err != nil {
			return err
		}
		defer out.Close()
		_, err = io.Copy(out, in)
		return err
	})
}

func dumpDir(backend, dir string) (T, error) {
	st, err := openBackend(backend, dir)
	if err != nil {
		return nil, err
	}
	defer st.Close()
	return dumpStore(st)
}

func runCrashStream(seed int64, n int, out, tier string) *RunReport {
	f := &failer{}
	cs := &CaseSet{}
	evals := 0
	distinct := map[string]bool{}
	kinds := map[string]int{}
	known := map[string]bool{}
	var samples []interface{}
	be := "bbolt"
	for hi := 0; hi < n; hi++ {
		g := NewGen(histSeed(seed, hi) + 11)
		cfg := HistCfg{MinOps: 8, MaxOps: 20, Colls: 2, PMalformed: 0.02}
		res, h := runHistory(g, cfg, be, false)
		if res.Err != "" {
			f.failf("cannot run base history: %s", res.Err)
			continue
		}
		var baseOps []*Op
		for _, s := range res.Steps {
			baseOps = append(baseOps, s.Op)
		}
		base := bakeIds(baseOps)
		baseTerm := opsTerm(base)
		var targets []*Op
		for _, o := range h.faultTargets(12) {
			if isWrite(o.Kind) && o.Kind != "ListCollections" {
				targets = append(targets, o)
			}
		}
		for _, target := range targets {
			if target.Kind == "Insert" || target.Kind == "Save" {
				for _, m := range target.Docs {
					if needsId(m) {
						m["_id"] = fmt.Sprintf("%08x-1111-4222-8333-%012x", g.Intn(1<<30), g.Intn(1<<30))
					}
				}
			}
			kinds[target.Kind]++
			// state before, and the number of calls
			env, err := newEnv(be)
			if err != nil {
				continue
			}
			replayOn(env, base)
			before, _ := dumpStore(env.st.inner)
			env.st.reset()
			t0 := *target
			r0 := t0.exec(env)
			ncalls := int(env.st.calls)
			after, _ := dumpStore(env.st.inner)
			env.destroy()
			for k := 0; k <= ncalls; k++ {
				if tier == "quick" && ncalls > 12 && k >= 8 && k < ncalls-3 {
					continue
				}
				env, err := newEnv(be)
				if err != nil {
					continue
				}
				replayOn(env, base)
				env.st.reset()
				snap, _ := os.MkdirTemp(scratchRoot(), "vh-crash-")
				kk := int64(k)
				if k == ncalls {
					kk = -1 // not interrupted: snapshot after the operation returned
				}
				env.st.crashAt = kk
				env.st.onCrash = func() {
					// what is on disk right now is what a kill would leave
					if err := copyDir(env.dir, snap); err != nil {
						f.failf("copy: %v", err)
					}
					panic(crashSignal{kk})
				}
				tk := *target
				func() {
					defer func() {
						if r := recover(); r != nil {
							if _, ok := r.(crashSignal); !ok {
								panic(r)
							}
						}
					}()
					// exec recovers panics itself; a crashSignal surfaces as a code-99 result, which is ignored here
					tk.exec(env)
				}()
				if kk < 0 {
					env.db.Close()
					copyDir(env.dir, snap)
				}
				env.st.crashAt = -1
				got, err := dumpDir(be, snap)
				evals++
				if err != nil {
					f.failf("cannot reopen after a crash at call %d of %s: %v", k, target.Kind, err)
				} else {
					sg := Tstr(got)
					cs.Add(fmt.Sprintf("(HCrash %s %s %s %s)", baseTerm, tk.term(), gZ(kk), sg), hi == 0 && len(cs.Sample) < 4)
					switch {
					case sg == Tstr(before):
						distinct[target.Kind+"/absent"] = true
					case sg == Tstr(after):
						distinct[target.Kind+"/present"] = true
					default:
						if isMultiTx(target.Kind) {
							known["K-composite: "+target.Kind+" interrupted between its transactions leaves an intermediate state"] = true
						} else {
							f.failf("after a crash at store call %d of %s the reopened database is neither the state before nor after the operation; op %s after %s", k, target.Kind, tk.term(), clip(baseTerm, 500))
						}
					}
					if kk < 0 && errKind(r0) == "e0" && sg != Tstr(after) {
						f.failf("acknowledged %s not durable after close/reopen; op %s", target.Kind, tk.term())
					}
				}
				if len(samples) < 3 && k == ncalls/2 {
					samples = append(samples, map[string]interface{}{"op": clip(tk.term(), 300), "interrupted_at_call": k, "of_calls": ncalls})
				}
				os.RemoveAll(snap)
				env.destroy()
			}
		}
	}
	// (i') a large batch: interrupted at every begin/commit the operation makes (there must be exactly one commit)
	for _, size := range []int{1300, 2600} {
		mk := func() (*Env, []*d.Document) {
			env, err := newEnv(be)
			if err != nil {
				return nil, nil
			}
			env.db.CreateCollection("big")
			env.db.CreateIndex("big", "a")
			docs := make([]*d.Document, size)
			for i := range docs {
				docs[i] = d.NewDocumentOf(scaleDoc(i))
			}
			return env, docs
		}
		env, docs := mk()
		if env == nil {
			continue
		}
		before, _ := dumpStore(env.st.inner)
		env.st.reset()
		env.st.tracing = true
		env.db.Insert("big", docs...)
		trace := append([]string{}, env.st.trace...)
		after, _ := dumpStore(env.st.inner)
		env.destroy()
		for k, what := range trace {
			if what != "commit" && !(what == "begin" && k > 0) {
				continue
			}
			env, docs := mk()
			if env == nil {
				continue
			}
			snap, _ := os.MkdirTemp(scratchRoot(), "vh-crash-")
			env.st.reset()
			env.st.crashAt = int64(k)
			env.st.onCrash = func() {
				copyDir(env.dir, snap)
				panic(crashSignal{int64(k)})
			}
			func() {
				defer func() { recover() }()
				env.db.Insert("big", docs...)
			}()
			env.st.crashAt = -1
			got, err := dumpDir(be, snap)
			evals++
			if err != nil {
				f.failf("cannot reopen after a crash at call %d of a %d-document Insert: %v", k, size, err)
			} else if sg := Tstr(got); sg != Tstr(before) && sg != Tstr(after) {
				f.failf("a %d-document Insert interrupted at its store call %d (%s) is partially present after reopening: %d keys (before %d, after %d)", size, k, what, len(got.([]T)), len(before.([]T)), len(after.([]T)))
			}
			distinct[fmt.Sprintf("bigbatch/%d/%s", size, what)] = true
			os.RemoveAll(snap)
			env.destroy()
		}
	}
	// (ii) SIGKILL at random instants
	kills := 3
	if tier == "thorough" {
		kills = 25
	}
	killStats := map[string]int{}
	for i := 0; i < kills; i++ {
		for _, b := range []string{"bbolt", "badgerdisk"} {
			if msg := killOnce(seed*100+int64(i), b, killStats); msg != "" {
				f.failf("%s", msg)
			}
			evals++
		}
	}
	for k := range killStats {
		distinct["kill/"+k] = true
	}
	files := cs.Write(out, "crash")
	return &RunReport{Stream: "crash", Seed: seed, Evaluations: evals, Distinct: len(distinct),
		Rule:         "one evaluation = one write operation interrupted at one store call on the on-disk bbolt store (the files as they are at that instant are reopened and compared with the states before/after and with the model), or one SIGKILL of a child process running a write workload followed by a reopen and audit; distinct = distinct (operation kind, outcome) pairs",
		OracleFails:  f.fails, CaseFiles: files, Samples: samples, Known: keysOf(known),
		Distribution: map[string]interface{}{"base_histories": n, "target_ops": kinds, "sigkill_runs": killStats}}
}

// ---- SIGKILL child ----

// child: insert batches and update them, logging "BEGIN i" before and "ACK i" after each operation
func crashChildMain(dir, backend string) {
	inner, err := openBackend(backend, dir)
	if err != nil {
		fmt.Println("ERR", err)
		os.Exit(3)
	}
	db, _ := clover.OpenWithStore(inner)
	db.CreateCollection("c")
	db.CreateIndex("c", "a")
	db.CreateIndex("c", "g")
	w := bufio.NewWriter(os.Stdout)
	for i := 0; ; i++ {
		fmt.Fprintf(w, "BEGIN %d\n", i)
		w.Flush()
		var err error
		switch i % 3 {
		case 0: // a batch of 5 documents of generation i
			docs := make([]*d.Document, 5)
			for j := range docs {
				docs[j] = d.NewDocumentOf(map[string]interface{}{"g": int64(i), "a": int64(j), "pad": strings.Repeat("x", 200)})
			}
			err = db.Insert("c", docs...)
		case 1: // bulk update of the previous generation
			err = db.Update(query.NewQuery("c").Where(query.Field("g").Eq(i-1)), map[string]interface{}{"a": int64(100 + i), "u": int64(i)})
		default: // bulk delete of an older generation
			err = db.Delete(query.NewQuery("c").Where(query.Field("g").Eq(i - 5)))
		}
		if err != nil {
			fmt.Fprintf(w, "ERR %d %v\n", i, err)
		} else {
			fmt.Fprintf(w, "ACK %d\n", i)
		}
		w.Flush()
	}
}

func killOnce(seed int64, backend string, stats map[string]int) string {
	dir, _ := os.MkdirTemp(scratchRoot(), "vh-kill-")
	defer os.RemoveAll(dir)
	self, _ := os.Executable()
	cmd := exec.Command(self, "crashchild", "--out", dir, "--backend", backend)
	stdout, _ := cmd.StdoutPipe()
	if err := cmd.Start(); err != nil {
		return "cannot start child: " + err.Error()
	}
	g := NewGen(seed)
	delay := time.Duration(30+g.Intn(250)) * time.Millisecond
	lines := make(chan string, 100000)
	go func() {
		sc := bufio.NewScanner(stdout)
		for sc.Scan() {
			lines <- sc.Text()
		}
		close(lines)
	}()
	time.Sleep(delay)
	cmd.Process.Signal(syscall.SIGKILL)
	cmd.Wait()
	lastAck, lastBegin := -1, -1
	for l := range lines {
		parts := strings.Fields(l)
		if len(parts) >= 2 {
			n, _ := strconv.Atoi(parts[1])
			if parts[0] == "ACK" {
				lastAck = n
			}
			if parts[0] == "BEGIN" {
				lastBegin = n
			}
			if parts[0] == "ERR" {
				return "child reported " + l
			}
		}
	}
	inner, err := openBackend(backend, dir)
	if err != nil {
		return fmt.Sprintf("cannot reopen %s after SIGKILL: %v", backend, err)
	}
	db, _ := clover.OpenWithStore(inner)
	defer db.Close()
	if ok, _ := db.HasCollection("c"); !ok {
		if lastAck >= 0 {
			return "collection lost after SIGKILL although operations were acknowledged"
		}
		stats[backend+"/nothing-yet"]++
		return ""
	}
	all, err := db.FindAll(query.NewQuery("c"))
	if err != nil {
		return "FindAll after reopen: " + err.Error()
	}
	// expected state as a function of the number m of completed operations: m = lastAck+1, or lastAck+2 if the
	// in-flight operation made it
	gens := func(m int) map[int]string {
		st := map[int]string{} // generation -> "fresh" | "updated"
		for i := 0; i < m; i++ {
			switch i % 3 {
			case 0:
				st[i] = "fresh"
			case 1:
				if _, ok := st[i-1]; ok {
					st[i-1] = "updated"
				}
			default:
				delete(st, i-5)
			}
		}
		return st
	}
	observed := map[int][]*d.Document{}
	for _, doc := range all {
		gi, _ := doc.Get("g").(int64)
		observed[int(gi)] = append(observed[int(gi)], doc)
	}
	matches := func(m int) bool {
		exp := gens(m)
		if len(exp) != len(observed) {
			return false
		}
		for gi, state := range exp {
			docs := observed[gi]
			if len(docs) != 5 {
				return false
			}
			for _, doc := range docs {
				if (state == "updated") != doc.Has("u") {
					return false
				}
			}
		}
		return true
	}
	m0 := lastAck + 1
	which := ""
	switch {
	case matches(m0):
		which = "in-flight-absent"
	case lastBegin > lastAck && matches(m0+1):
		which = "in-flight-present"
	default:
		return fmt.Sprintf("after SIGKILL on %s (last ACK %d, last BEGIN %d) the documents match neither %d nor %d completed operations: %d generations present", backend, lastAck, lastBegin, m0, m0+1, len(observed))
	}
	stats[backend+"/"+which]++
	// audit: counter and indexes agree with the documents, no rebuild
	n, _ := db.Count(query.NewQuery("c"))
	if n != len(all) {
		return fmt.Sprintf("after SIGKILL on %s Count=%d but FindAll returns %d", backend, n, len(all))
	}
	for _, fld := range []string{"a", "g"} {
		viaIdx, err := db.FindAll(query.NewQuery("c").Sort(query.SortOption{Field: fld, Direction: 1}))
		if err != nil || len(viaIdx) != len(all) {
			return fmt.Sprintf("after SIGKILL on %s the index on %s yields %d documents, the collection has %d (err %v)", backend, fld, len(viaIdx), len(all), err)
		}
		for i := 1; i < len(viaIdx); i++ {
			if clover.VerifCompare(viaIdx[i-1].Get(fld), viaIdx[i].Get(fld)) > 0 {
				return fmt.Sprintf("after SIGKILL on %s the index on %s is out of order", backend, fld)
			}
		}
		rng, err := db.FindAll(query.NewQuery("c").Where(query.Field(fld).GtEq(0)))
		if err != nil || len(rng) != len(all) {
			return fmt.Sprintf("after SIGKILL on %s a range scan on %s yields %d of %d documents", backend, fld, len(rng), len(all))
		}
	}
	return ""
}

package main

// History streams: seeded generation of operation histories, execution on the implementation,
// emission of HHist cases for the model-side check.

import (
	"fmt"
	"math"
	"os"
	"strings"
	"time"

	clover "github.com/ostafen/clover/v2"
	"github.com/ostafen/clover/v2/store"
)

func cloverOpen(st store.Store) (*clover.DB, error) { return clover.OpenWithStore(st) }

var idPool = []string{
	"00000000-0000-4000-8000-000000000001", "00000000-0000-4000-8000-000000000002",
	"00000000-0000-4000-8000-000000000003", "11111111-1111-4111-8111-111111111111",
	"22222222-2222-4222-8222-222222222222", "aaaaaaaa-aaaa-4aaa-8aaa-aaaaaaaaaaaa",
	"ffffffff-ffff-4fff-bfff-ffffffffffff", "0a0b0c0d-0e0f-4a0b-8c0d-0e0f0a0b0c0d",
	"12345678-9abc-4def-8123-456789abcdef", "fedcba98-7654-4321-8fed-cba987654321",
	"00000000-0000-0000-0000-000000000000", "ffffffff-ffff-ffff-ffff-ffffffffffff",
}

var badIds = []interface{}{"not-a-uuid", "1234", int64(5), "00000000-0000-4000-8000-00000000000g", true}

var collNames = []string{"c", "cc", "d", "c d", "ü", "coll", "c:", "%d", "100%", "a", "x", "n", // these three are also field names
	strings.Repeat("L", 520), strings.Repeat("m", 590)} // and two long ones
var fieldNames = []string{"a", "b", "ab", "x", "xy", "n", "n.a", "s", "_id", "t"}

type HistCfg struct {
	MinOps, MaxOps int
	AllowClose     bool
	Colls          int     // number of collection names in play
	PMalformed     float64 // probability that a write is deliberately invalid
	Focus          string  // "", "sort", "index", "ids", "bulk", "catalog", "criteria"
	JSONSafe       bool
}

type HistGen struct {
	g     *Gen
	cfg   HistCfg
	colls map[string]*collState
	names []string
	dist  map[string]int
	crits map[string]int
	cur   *collState // collection the query under construction targets
}

type collState struct {
	ids     []string
	indexes []string
}

func NewHistGen(g *Gen, cfg HistCfg) *HistGen {
	h := &HistGen{g: g, cfg: cfg, colls: map[string]*collState{}, dist: map[string]int{}, crits: map[string]int{}}
	n := cfg.Colls
	if n <= 0 {
		n = 2
	}
	perm := g.r.Perm(len(collNames))
	for i := 0; i < n && i < len(perm); i++ {
		h.names = append(h.names, collNames[perm[i]])
	}
	return h
}

// ---- value generation for documents ----

func (h *HistGen) smallInt() interface{} {
	if h.g.Chance(0.12) {
		return int64(-1 - h.g.Intn(4))
	}
	return int64(h.g.Intn(8))
}

// a field value: biased to small comparable numbers (so that criteria select non-trivially), with the
// whole boundary pool and nested values behind it
func (h *HistGen) fieldValue() interface{} {
	g := h.g
	switch g.Intn(20) {
	case 0, 1, 2, 3, 4, 5, 6:
		return h.smallInt()
	case 7:
		return float64(g.Intn(8))
	case 8:
		return float64(g.Intn(16)) / 2
	case 9, 17:
		if g.Chance(0.25) {
			return float64(-1 - g.Intn(3))
		}
		return uint64(g.Intn(8))
	case 10:
		return nil
	case 11, 12:
		return pickOf(g, []interface{}{"", "a", "ab", "b", "abc", "a\x00", "\xff", "$a", "ü"})
	case 13:
		return g.Bool()
	case 14:
		return pickOf(g, poolTimes())
	case 15:
		n := g.Intn(4)
		a := make([]interface{}, n)
		for i := range a {
			a[i] = h.smallInt()
		}
		return a
	case 16:
		return g.Prim()
	default:
		return g.Value(2)
	}
}

func (h *HistGen) jsonSafe(v interface{}) interface{} {
	switch x := v.(type) {
	case float64:
		if math.IsInf(x, 0) {
			return float64(1)
		}
	case string:
		if !validUTF8(x) {
			return "s"
		}
	case time.Time:
		// RFC 3339 text cannot carry a year outside 1..9999 nor a zone offset with seconds
		if _, off := x.Zone(); x.Year() < 1 || x.Year() > 9999 || off%60 != 0 {
			return time.Unix(1700000000, 5).UTC()
		}
	case []interface{}:
		for i := range x {
			x[i] = h.jsonSafe(x[i])
		}
	case map[string]interface{}:
		for k, e := range x {
			if !validUTF8(k) {
				delete(x, k)
				continue
			}
			x[k] = h.jsonSafe(e)
		}
	}
	return v
}

func validUTF8(s string) bool {
	for _, r := range s {
		if r == 0xFFFD {
			return false
		}
	}
	return true
}

func (h *HistGen) doc(withId string) map[string]interface{} {
	g := h.g
	m := map[string]interface{}{}
	for _, f := range []string{"a", "b", "x", "xy", "s", "t"} {
		if g.Chance(0.6) {
			m[f] = h.fieldValue()
		}
	}
	if g.Chance(0.4) {
		sub := map[string]interface{}{}
		if g.Chance(0.7) {
			sub["a"] = h.fieldValue()
		}
		if g.Chance(0.3) {
			sub["b"] = h.smallInt()
		}
		m["n"] = sub
	} else if g.Chance(0.2) {
		m["n"] = h.smallInt()
	}
	if g.Chance(0.15) {
		m["ab"] = h.fieldValue()
	}
	if g.Chance(0.45) {
		n := g.Intn(4)
		a := make([]interface{}, n)
		for i := range a {
			a[i] = int64(g.Intn(5))
		}
		m["arr"] = a
	}
	if !h.cfg.JSONSafe && g.Chance(0.05) {
		m["_expiresAt"] = pickOf(g, []interface{}{time.Unix(1000, 0).UTC(), time.Unix(4102444800, 0).UTC(), time.Unix(1700000000, 5).In(zoneP2)})
	}
	if withId != "" {
		m["_id"] = withId
	}
	if h.cfg.JSONSafe {
		h.jsonSafe(m)
	}
	return m
}

// ---- criteria ----

func (h *HistGen) literal() interface{} {
	g := h.g
	if g.Chance(0.025) {
		// a literal Normalize rejects: the criteria cannot be normalised and the operation fails before any effect
		return pickOf(g, []interface{}{make(chan int), func() {}, complex(1, 2), map[int]string{1: "a"}, []interface{}{1, make(chan int)}})
	}
	if g.Chance(0.1) {
		return pickOf(g, []interface{}{int(-1), int64(-3), int8(-2), float64(-1.5), float32(-1)})
	}
	switch g.Intn(16) {
	case 0, 1, 2:
		return int(g.Intn(8))
	case 3:
		return int64(g.Intn(8))
	case 4:
		return int8(g.Intn(8))
	case 5:
		return uint16(g.Intn(8))
	case 6:
		return float64(g.Intn(8))
	case 7:
		return float32(g.Intn(16)) / 2
	case 8:
		return nil
	case 9:
		return pickOf(g, []interface{}{"", "a", "ab", "b", "$a", "$b", "$n.a", "$zz", "$$a"})
	case 10:
		return g.Bool()
	case 11:
		return pickOf(g, poolTimes())
	case 12:
		return []interface{}{int(g.Intn(4)), int64(g.Intn(4))}
	case 13:
		// objects that are prefixes / extensions of one another and of the stored sub-documents
		return pickOf(g, []interface{}{map[string]interface{}{"a": g.Intn(3)}, map[string]interface{}{}, map[string]interface{}{"a": g.Intn(3), "b": g.Intn(3)}, map[string]interface{}{"b": g.Intn(3)}})
	case 14:
		return g.Prim()
	default:
		return uint64(g.Intn(8))
	}
}

func (h *HistGen) operand() Operand {
	if h.g.Chance(0.12) {
		return Operand{IsRef: true, Ref: pickOf(h.g, []string{"a", "b", "x", "n.a", "zz", "_id"})}
	}
	return Operand{Lit: h.literal()}
}

func (h *HistGen) critField() string {
	if h.cur != nil && len(h.cur.indexes) > 0 && h.g.Chance(0.5) {
		return pickOf(h.g, h.cur.indexes) // a field that has an index in the collection being queried
	}
	return pickOf(h.g, []string{"a", "a", "a", "b", "b", "x", "xy", "n.a", "n", "n", "s", "ab", "zz", "_id", "t", "arr"})
}

// the modelled regexp sub-language, plus patterns regexp.Compile rejects (Like is then false for every document)
var likePats = []string{"a", "^a", "a$", "^a.*b$", ".*", "^$", "b.*", "^ab", "a.*c", "x", "(a", "[ab", "a)", "*a", "(draft"}

func (h *HistGen) crit(depth int) *Crit {
	g := h.g
	if depth > 0 && g.Chance(0.45) {
		switch g.Intn(5) {
		case 0, 1:
			return &Crit{Kind: "and", A: h.crit(depth - 1), B: h.crit(depth - 1)}
		case 2, 3:
			return &Crit{Kind: "or", A: h.crit(depth - 1), B: h.crit(depth - 1)}
		default:
			return &Crit{Kind: "not", A: h.crit(depth - 1)}
		}
	}
	f := h.critField()
	if f == "n" && g.Chance(0.6) {
		// the sub-document field against object literals that extend / are extended by the stored objects
		lit := pickOf(g, []interface{}{map[string]interface{}{"a": g.Intn(3)}, map[string]interface{}{}, map[string]interface{}{"a": g.Intn(3), "b": g.Intn(3)}, map[string]interface{}{"a": g.Intn(3), "b": g.Intn(3), "c": 1}})
		if g.Chance(0.25) {
			return &Crit{Kind: "in", Field: f, Vals: []Operand{{Lit: lit}, {Lit: map[string]interface{}{}}}}
		}
		return &Crit{Kind: "cmp", Op: pickOf(g, []string{"OEq", "OGt", "OLt", "OGtEq", "OLtEq"}), Field: f, Val: Operand{Lit: lit}}
	}
	switch g.Intn(16) {
	case 0, 1:
		return &Crit{Kind: "cmp", Op: "OEq", Field: f, Val: h.operand()}
	case 2:
		return &Crit{Kind: "neq", Field: f, Val: h.operand()}
	case 3, 4:
		return &Crit{Kind: "cmp", Op: "OGt", Field: f, Val: h.operand()}
	case 5:
		return &Crit{Kind: "cmp", Op: "OGtEq", Field: f, Val: h.operand()}
	case 6, 7:
		return &Crit{Kind: "cmp", Op: "OLt", Field: f, Val: h.operand()}
	case 8:
		return &Crit{Kind: "cmp", Op: "OLtEq", Field: f, Val: h.operand()}
	case 9:
		if g.Chance(0.3) { // a single operand, often a reference in one of its two forms
			ref := pickOf(g, []string{"a", "b", "x", "n.a", "zz"})
			return &Crit{Kind: "in", Field: f, Vals: []Operand{pickOf(g, []Operand{{Lit: "$" + ref}, {IsRef: true, Ref: ref}, {Lit: int(g.Intn(6))}, {Lit: nil}})}}
		}
		n := g.Intn(4)
		vs := make([]Operand, n)
		for i := range vs {
			vs[i] = h.operand()
		}
		return &Crit{Kind: "in", Field: f, Vals: vs}
	case 10:
		if g.Chance(0.7) {
			n := 1 + g.Intn(3)
			vs := make([]Operand, n)
			for i := range vs {
				vs[i] = Operand{Lit: pickOf(g, []interface{}{int(g.Intn(6)), int64(g.Intn(6)), float64(g.Intn(6)), uint8(g.Intn(6))})}
				if i > 0 && g.Chance(0.3) {
					z := g.Intn(6) // the same number again, possibly under another Go kind
					vs[i-1] = Operand{Lit: int(z)}
					vs[i] = Operand{Lit: pickOf(g, []interface{}{int(z), float64(z), uint64(z)})}
				}
			}
			return &Crit{Kind: "contains", Field: "arr", Vals: vs}
		}
		n := g.Intn(3)
		vs := make([]Operand, n)
		for i := range vs {
			vs[i] = h.operand()
		}
		return &Crit{Kind: "contains", Field: f, Vals: vs}
	case 11:
		return &Crit{Kind: "exists", Field: f}
	case 12:
		return &Crit{Kind: "notexists", Field: f}
	case 13:
		return &Crit{Kind: "like", Field: pickOf(g, []string{"s", "a", "b"}), Pat: pickOf(g, likePats)}
	case 14:
		return &Crit{Kind: "fun", Fun: g.Intn(6)}
	case 15:
		if g.Chance(0.5) {
			return &Crit{Kind: pickOf(g, []string{"isnil", "istrue", "isfalse", "isnilornot"}), Field: f}
		}
		fallthrough
	default:
		lit := int(g.Intn(8))
		if g.Chance(0.25) {
			lit = -1 - g.Intn(3)
		}
		return &Crit{Kind: "cmp", Op: pickOf(g, []string{"OGt", "OLt", "OGtEq", "OLtEq", "OEq"}), Field: f, Val: Operand{Lit: lit}}
	}
}

func (h *HistGen) sortOpts() []SortOpt {
	g := h.g
	n := g.Intn(3)
	if g.Chance(0.1) {
		return []SortOpt{} // Sort() with no options = by _id
	}
	opts := make([]SortOpt, 0, n+1)
	for i := 0; i <= n; i++ {
		f := pickOf(g, []string{"a", "a", "b", "x", "xy", "n.a", "s", "_id", "zz", "t", "n", "arr"})
		if h.cur != nil && len(h.cur.indexes) > 0 && g.Chance(0.4) {
			f = pickOf(g, h.cur.indexes)
		}
		opts = append(opts, SortOpt{f, pickOf(g, []int{-2, -1, 0, 1, 2})})
	}
	return opts
}

func (h *HistGen) query(coll string, allowWindow, allowSort bool) QSpec {
	g := h.g
	q := QSpec{Coll: coll}
	h.cur = h.colls[coll]
	defer func() { h.cur = nil }()
	if h.cur != nil && len(h.cur.indexes) > 0 && g.Chance(0.10) {
		// negations over nested connectives of comparisons on one indexed field (the planner pushes them inward)
		f := pickOf(g, h.cur.indexes)
		cmp := func() *Crit {
			return &Crit{Kind: "cmp", Op: pickOf(g, []string{"OGt", "OGtEq", "OLt", "OLtEq", "OEq"}), Field: f, Val: Operand{Lit: int(g.Intn(8))}}
		}
		var build func(d int) *Crit
		build = func(d int) *Crit {
			if d == 0 || g.Chance(0.3) {
				return cmp()
			}
			switch g.Intn(3) {
			case 0:
				return &Crit{Kind: "and", A: build(d - 1), B: build(d - 1)}
			case 1:
				return &Crit{Kind: "or", A: build(d - 1), B: build(d - 1)}
			}
			return &Crit{Kind: "not", A: build(d - 1)}
		}
		c := &Crit{Kind: "not", A: &Crit{Kind: pickOf(g, []string{"or", "and"}), A: build(2), B: build(2)}}
		c.countOps(h.crits)
		q.Steps = append(q.Steps, QStep{Kind: "where", C: c})
		return q
	}
	if h.cur != nil && len(h.cur.indexes) > 0 && allowSort && g.Chance(0.22) {
		// a comparison on an indexed field, sorted by that field first (index range scan + elided or kept sort)
		f := pickOf(g, h.cur.indexes)
		c := &Crit{Kind: "cmp", Op: pickOf(g, []string{"OGt", "OGtEq", "OLt", "OLtEq", "OGt"}), Field: f, Val: Operand{Lit: pickOf(g, []interface{}{int(g.Intn(6)), -1, nil, "a", float64(2.5)})}}
		if g.Chance(0.3) {
			c = &Crit{Kind: "and", A: c, B: h.crit(1)}
		}
		c.countOps(h.crits)
		q.Steps = append(q.Steps, QStep{Kind: "where", C: c})
		opts := []SortOpt{{f, pickOf(g, []int{-1, 1})}}
		if g.Chance(0.5) {
			opts = append(opts, SortOpt{pickOf(g, []string{"b", "x", "s", "_id", "a"}), pickOf(g, []int{-1, 1})})
		}
		q.Steps = append(q.Steps, QStep{Kind: "sort", Opts: opts})
		if allowWindow && g.Chance(0.3) {
			q.Steps = append(q.Steps, QStep{Kind: "skip", N: pickOf(g, []int{1, 2, 3})})
		}
		if allowWindow && g.Chance(0.3) {
			q.Steps = append(q.Steps, QStep{Kind: "limit", N: pickOf(g, []int{1, 2, 3})})
		}
		return q
	}
	if h.cur != nil && len(h.cur.indexes) > 0 && g.Chance(0.08) {
		// the whole criteria is one unary criteria on an indexed field (nil operands, Eq/In/Exists forms)
		f := pickOf(g, h.cur.indexes)
		var c *Crit
		switch g.Intn(5) {
		case 0:
			c = &Crit{Kind: "cmp", Op: "OEq", Field: f, Val: Operand{Lit: nil}}
		case 1:
			c = &Crit{Kind: "cmp", Op: pickOf(g, []string{"OEq", "OLtEq", "OGtEq"}), Field: f, Val: Operand{Lit: pickOf(g, []interface{}{nil, int(g.Intn(6)), "a"})}}
		case 2:
			c = &Crit{Kind: "in", Field: f, Vals: []Operand{{Lit: pickOf(g, []interface{}{nil, "$b", "$a", int(g.Intn(6))})}}}
		case 3:
			c = &Crit{Kind: "exists", Field: f}
		default:
			c = &Crit{Kind: "neq", Field: f, Val: Operand{Lit: pickOf(g, []interface{}{nil, int(g.Intn(6))})}}
		}
		c.countOps(h.crits)
		q.Steps = append(q.Steps, QStep{Kind: "where", C: c})
		if allowSort && g.Chance(0.3) {
			q.Steps = append(q.Steps, QStep{Kind: "sort", Opts: h.sortOpts()})
		}
		return q
	}
	if g.Chance(0.75) {
		c := h.crit(3)
		c.countOps(h.crits)
		q.Steps = append(q.Steps, QStep{Kind: "where", C: c})
	} else if g.Chance(0.15) {
		q.Steps = append(q.Steps, QStep{Kind: "matchfunc", N: g.Intn(6)})
	}
	if allowSort && g.Chance(0.4) {
		q.Steps = append(q.Steps, QStep{Kind: "sort", Opts: h.sortOpts()})
	}
	if allowWindow && g.Chance(0.3) {
		q.Steps = append(q.Steps, QStep{Kind: "skip", N: pickOf(g, []int{-1, 0, 1, 2, 5, 100})})
	}
	if allowWindow && g.Chance(0.3) {
		q.Steps = append(q.Steps, QStep{Kind: "limit", N: pickOf(g, []int{-5, -1, 0, 1, 2, 3, 100, math.MaxInt, math.MinInt})})
	}
	// builder calls are order-insensitive except for overriding: shuffle
	g.r.Shuffle(len(q.Steps), func(i, j int) { q.Steps[i], q.Steps[j] = q.Steps[j], q.Steps[i] })
	return q
}

// mode of rendering a result list for a query (see Ops.v T_of_docs)
func resultMode(q QSpec, foreach bool) int {
	opts, skip, limit, _ := q.effective()
	if len(opts) == 0 {
		if foreach {
			return 2
		}
		return 0
	}
	windowed := skip > 0 || limit >= 0
	total := false
	for _, o := range opts {
		if o.Field == "_id" {
			total = true
		}
	}
	if (windowed || foreach) && !total {
		return 1
	}
	return 0
}

// ---- operations ----

func (h *HistGen) pickColl() string {
	if h.g.Chance(0.07) {
		return pickOf(h.g, collNames) // possibly a collection not in play / missing
	}
	return pickOf(h.g, h.names)
}

func (h *HistGen) pickExisting() (string, bool) {
	var ex []string
	for _, n := range h.names {
		if h.colls[n] != nil {
			ex = append(ex, n)
		}
	}
	if len(ex) == 0 {
		return "", false
	}
	return pickOf(h.g, ex), true
}

func (h *HistGen) pickId(c string) string {
	cs := h.colls[c]
	if cs != nil && len(cs.ids) > 0 && h.g.Chance(0.8) {
		return pickOf(h.g, cs.ids)
	}
	return pickOf(h.g, idPool)
}

func (h *HistGen) updater() Updater {
	g := h.g
	f := pickOf(g, []string{"a", "b", "x", "xy", "n.a", "s", "n"})
	switch g.Intn(9) {
	case 0, 1:
		return Updater{Kind: "funset", Field: f, Val: h.fieldValue()}
	case 2, 3:
		return Updater{Kind: "funcopyset", Field: f, Val: h.fieldValue()}
	case 4:
		return Updater{Kind: "funnil"}
	case 5:
		return Updater{Kind: "funid"}
	case 6, 7:
		return Updater{Kind: "funincr", Field: pickOf(g, []string{"a", "b", "x"})}
	default:
		if g.Chance(h.cfg.PMalformed) {
			return Updater{Kind: "funset", Field: "_id", Val: pickOf(g, append([]interface{}{pickOf(g, idPool)}, badIds...))}
		}
		return Updater{Kind: "funset", Field: f, Val: h.fieldValue()}
	}
}

func (h *HistGen) updateMap() map[string]interface{} {
	g := h.g
	m := map[string]interface{}{}
	if g.Chance(0.12) {
		// a single assignment that COMPARES equal to what many documents hold without being identical: an explicit nil for
		// an absent field, the same small number under another Go kind
		k := g.Intn(4)
		return pickOf(g, []map[string]interface{}{{"zq": nil}, {"a": float64(k)}, {"a": uint64(k)}, {"b": float64(k)}, {"n.b": float64(k)}})
	}
	// pairwise prefix-unrelated paths (Go map iteration order would otherwise matter)
	cands := [][]string{{"a"}, {"b"}, {"x"}, {"n.a", "n.a", "n", "n.b"}, {"s"}, {"xy"}}
	for _, c := range cands {
		if g.Chance(0.3) {
			m[pickOf(g, c)] = h.literal()
		}
	}
	if len(m) == 0 {
		m["a"] = h.literal()
	}
	if g.Chance(h.cfg.PMalformed / 2) {
		m["_id"] = pickOf(g, idPool)
	}
	return m
}

func (h *HistGen) next() *Op {
	g := h.g
	// make sure something exists early on
	c, ok := h.pickExisting()
	if !ok || g.Chance(0.06) {
		name := h.pickColl()
		return &Op{Kind: "CreateCollection", Coll: name}
	}
	if g.Chance(0.08) {
		c = h.pickColl()
	}
	if h.cfg.AllowClose && g.Chance(0.12) {
		if g.Chance(0.25) {
			return &Op{Kind: "Close"}
		}
		return &Op{Kind: "Reopen"}
	}
	if (h.cfg.Focus == "index" && g.Chance(0.10)) || (h.cfg.Focus == "sort" && g.Chance(0.07)) {
		return &Op{Kind: "CreateIndex", Coll: c, Field: pickOf(g, []string{"a", "a", "b", "x", "xy", "n", "n.a", "s", "t"})}
	}
	if h.cfg.Focus == "sort" && g.Chance(0.25) {
		q := h.query(c, true, true)
		if _, _, _, _ = q.effective(); true {
			hasSort := false
			for _, st := range q.Steps {
				if st.Kind == "sort" {
					hasSort = true
				}
			}
			if !hasSort {
				q.Steps = append(q.Steps, QStep{Kind: "sort", Opts: h.sortOpts()})
			}
		}
		if g.Chance(0.3) {
			return &Op{Kind: "ForEach", Q: q, Stop: pickOf(g, []int{-1, 1, 2, 3}), Mode: resultMode(q, true)}
		}
		return &Op{Kind: "FindAll", Q: q, Mode: resultMode(q, false)}
	}
	if h.cfg.Focus == "bulk" && g.Chance(0.25) {
		q := h.query(c, true, true)
		switch g.Intn(3) {
		case 0:
			return &Op{Kind: "Delete", Q: q}
		case 1:
			return &Op{Kind: "UpdateFunc", Q: q, U: h.updater()}
		default:
			return &Op{Kind: "Update", Q: q, KVs: h.updateMap()}
		}
	}
	if h.cfg.Focus == "ids" && g.Chance(0.08) {
		return &Op{Kind: "Update", Q: h.query(c, false, false), KVs: map[string]interface{}{"_id": pickOf(g, idPool), "a": int64(g.Intn(5))}}
	}
	if h.cfg.Focus == "bulk" && g.Chance(0.08) {
		q := QSpec{Coll: c, Steps: []QStep{{Kind: "sort", Opts: []SortOpt{{pickOf(g, []string{"a", "b", "x"}), pickOf(g, []int{-1, 1})}, {"_id", 1}}}, {Kind: "skip", N: 1 + g.Intn(3)}}}
		if g.Bool() {
			return &Op{Kind: "Delete", Q: q}
		}
		return &Op{Kind: "UpdateFunc", Q: q, U: h.updater()}
	}
	if h.cfg.Focus == "ids" && g.Chance(0.25) {
		switch g.Intn(4) {
		case 0:
			return &Op{Kind: "FindById", Coll: h.pickColl(), Id: pickOf(g, idPool)}
		case 1:
			return &Op{Kind: "UpdateById", Coll: c, Id: h.pickId(c), U: Updater{Kind: "funset", Field: "_id", Val: pickOf(g, append([]interface{}{pickOf(g, idPool)}, badIds...))}}
		case 2:
			docs := []map[string]interface{}{h.doc(pickOf(g, idPool)), h.doc(pickOf(g, idPool))}
			return &Op{Kind: "Insert", Coll: h.pickColl(), Docs: docs}
		default:
			return &Op{Kind: "Save", Coll: c, Docs: []map[string]interface{}{h.doc(pickOf(g, idPool))}}
		}
	}
	if h.cfg.Focus == "catalog" && g.Chance(0.3) {
		switch g.Intn(7) {
		case 0:
			return &Op{Kind: "CreateCollection", Coll: h.pickColl()}
		case 1:
			return &Op{Kind: "DropCollection", Coll: h.pickColl()}
		case 2:
			return &Op{Kind: "ListCollections"}
		case 3:
			return &Op{Kind: "CreateIndex", Coll: h.pickColl(), Field: pickOf(g, []string{"x", "xy", "n", "n.a", "a"})}
		case 4:
			return &Op{Kind: "DropIndex", Coll: h.pickColl(), Field: pickOf(g, []string{"x", "xy", "n", "n.a", "a"})}
		case 5:
			return &Op{Kind: "ListIndexes", Coll: h.pickColl()}
		default:
			return &Op{Kind: "HasIndex", Coll: h.pickColl(), Field: pickOf(g, []string{"x", "xy", "n", "n.a", "a"})}
		}
	}
	r := g.Intn(100)
	switch {
	case r < 16: // insert
		n := 1 + g.Intn(3)
		docs := make([]map[string]interface{}, n)
		for i := range docs {
			id := ""
			if g.Chance(0.5) {
				id = pickOf(g, idPool)
			}
			docs[i] = h.doc(id)
			if g.Chance(h.cfg.PMalformed) {
				docs[i]["_id"] = pickOf(g, badIds)
			}
			if g.Chance(h.cfg.PMalformed / 2) {
				docs[i]["_expiresAt"] = pickOf(g, []interface{}{int64(5), "soon", time.Unix(4102444800, 0).UTC()})
			}
		}
		return &Op{Kind: "Insert", Coll: c, Docs: docs}
	case r < 19:
		id := ""
		if g.Chance(0.6) {
			id = h.pickId(c)
		}
		return &Op{Kind: "Save", Coll: c, Docs: []map[string]interface{}{h.doc(id)}}
	case r < 24:
		return &Op{Kind: "UpdateById", Coll: c, Id: h.pickId(c), U: h.updater()}
	case r < 27:
		id := h.pickId(c)
		did := id
		if g.Chance(0.15) {
			did = pickOf(g, idPool)
		}
		return &Op{Kind: "ReplaceById", Coll: c, Id: id, Docs: []map[string]interface{}{h.doc(did)}}
	case r < 31:
		return &Op{Kind: "DeleteById", Coll: c, Id: h.pickId(c)}
	case r < 36:
		return &Op{Kind: "Update", Q: h.query(c, true, true), KVs: h.updateMap()}
	case r < 41:
		return &Op{Kind: "UpdateFunc", Q: h.query(c, true, true), U: h.updater()}
	case r < 45:
		return &Op{Kind: "Delete", Q: h.query(c, true, true)}
	case r < 51:
		return &Op{Kind: "CreateIndex", Coll: c, Field: pickOf(g, []string{"a", "a", "b", "x", "xy", "n", "n.a", "s", "_id", "t"})}
	case r < 54:
		f := pickOf(g, []string{"a", "b", "x", "xy", "n", "n.a", "s"})
		if cs := h.colls[c]; cs != nil && len(cs.indexes) > 0 && g.Chance(0.7) {
			f = pickOf(g, cs.indexes)
		}
		return &Op{Kind: "DropIndex", Coll: c, Field: f}
	case r < 56:
		return &Op{Kind: "DropCollection", Coll: c}
	case r < 72:
		q := h.query(c, true, true)
		return &Op{Kind: "FindAll", Q: q, Mode: resultMode(q, false)}
	case r < 77:
		if g.Chance(0.35) {
			q := QSpec{Coll: c, Steps: []QStep{{Kind: "skip", N: pickOf(g, []int{0, 1, 2, 3})}, {Kind: "limit", N: pickOf(g, []int{-1, 0, 1, 2, 3})}}}
			if g.Chance(0.3) {
				q.Steps = append(q.Steps, QStep{Kind: "sort", Opts: h.sortOpts()})
			}
			return &Op{Kind: "Count", Q: q}
		}
		return &Op{Kind: "Count", Q: h.query(c, true, true)}
	case r < 80:
		return &Op{Kind: "Exists", Q: h.query(c, true, true)}
	case r < 83:
		q := h.query(c, true, true)
		return &Op{Kind: "FindFirst", Q: q}
	case r < 88:
		q := h.query(c, true, true)
		return &Op{Kind: "ForEach", Q: q, Stop: pickOf(g, []int{-1, -1, 1, 2, 3}), Mode: resultMode(q, true)}
	case r < 91:
		return &Op{Kind: "FindById", Coll: c, Id: h.pickId(c)}
	case r < 93:
		return &Op{Kind: "HasCollection", Coll: h.pickColl()}
	case r < 94:
		return &Op{Kind: "ListCollections"}
	case r < 96:
		return &Op{Kind: "HasIndex", Coll: c, Field: pickOf(g, fieldNames)}
	case r < 97:
		return &Op{Kind: "ListIndexes", Coll: c}
	case r < 98:
		return &Op{Kind: "CreateByQuery", Coll: h.pickColl(), Q: h.query(c, true, true)}
	default:
		if h.cfg.AllowClose {
			return &Op{Kind: "Reopen"}
		}
		q := h.query(c, true, true)
		return &Op{Kind: "FindAll", Q: q, Mode: resultMode(q, false)}
	}
}

// FindFirst over a sort without a total order may return any of the tied documents: the generator
// only keeps FindFirst queries whose sort is total (or absent).
func totalOrNoSort(q QSpec) bool {
	opts, _, _, _ := q.effective()
	if len(opts) == 0 {
		return true
	}
	for _, o := range opts {
		if o.Field == "_id" {
			return true
		}
	}
	return false
}

// A bulk write through a sorted Skip/Limit window selects by position in the sorted sequence: when the sort keys tie, WHICH
// documents fall into the window is not determined (Go's sort.Slice is not stable, the index orders ties by id, absent and
// nil tie). The property promises nothing there, so generated writes get _id as a last sort key whenever they have a window.
func totalizeWindow(q QSpec) QSpec {
	opts, skip, limit, _ := q.effective()
	if len(opts) == 0 || (skip == 0 && limit < 0) || totalOrNoSort(q) {
		return q
	}
	steps := make([]QStep, len(q.Steps))
	copy(steps, q.Steps)
	for i := len(steps) - 1; i >= 0; i-- {
		if steps[i].Kind == "sort" {
			no := append(append([]SortOpt{}, steps[i].Opts...), SortOpt{"_id", 1})
			steps[i].Opts = no
			break
		}
	}
	return QSpec{Coll: q.Coll, Steps: steps}
}

// track the generator's own (approximate) view of the database after an executed op
func (h *HistGen) observe(o *Op, res T, env *Env) {
	okRes := false
	if l, isL := res.([]T); isL && len(l) > 0 {
		if z, isZ := l[0].(int64); isZ && z == 0 {
			okRes = true
		}
	}
	if !okRes {
		return
	}
	switch o.Kind {
	case "CreateCollection", "CreateByQuery":
		if h.colls[o.Coll] == nil {
			h.colls[o.Coll] = &collState{}
		}
	case "DropCollection":
		delete(h.colls, o.Coll)
	case "Insert", "Save":
		cs := h.colls[o.Coll]
		if cs == nil {
			return
		}
		fi := 0
		for _, m := range o.Docs {
			if needsId(m) {
				if fi < len(o.Fresh) {
					cs.ids = append(cs.ids, o.Fresh[fi])
					fi++
				}
			} else if s, ok := m["_id"].(string); ok {
				cs.ids = append(cs.ids, s)
			}
		}
	case "CreateIndex":
		if cs := h.colls[o.Coll]; cs != nil {
			cs.indexes = append(cs.indexes, o.Field)
		}
	}
}

// ---- running ----

type StepRec struct {
	Op   *Op
	Res  T
	Dump T
}

type HistResult struct {
	Steps       []StepRec
	Backend     string
	Err         string
	OracleFails []string
}

func newEnv(backend string) (*Env, error) {
	dir, err := os.MkdirTemp(scratchRoot(), "vh-"+backend+"-")
	if err != nil {
		return nil, err
	}
	tmp, err := os.MkdirTemp(scratchRoot(), "vh-tmp-")
	if err != nil {
		return nil, err
	}
	env := &Env{backend: backend, dir: dir, tmpdir: tmp}
	if err := env.open(); err != nil {
		return nil, err
	}
	return env, nil
}

func (env *Env) destroy() {
	if env.db != nil && !env.wedged {
		// Close can block behind a leaked transaction: do not wait for it forever
		if !withDeadline(10*time.Second, func() { env.db.Close() }) {
			env.wedged = true
		}
	}
	os.RemoveAll(env.dir)
	os.RemoveAll(env.tmpdir)
}

func isWrite(kind string) bool {
	switch kind {
	case "FindAll", "Count", "Exists", "FindFirst", "ForEach", "FindById", "HasCollection", "HasIndex", "ListIndexes":
		return false
	}
	return true
}

// generate-and-run: the generator adapts to the implementation's answers (ids, which collections exist)
func runHistory(g *Gen, cfg HistCfg, backend string, dumpEvery bool) (*HistResult, *HistGen) {
	env, err := newEnv(backend)
	if err != nil {
		return &HistResult{Backend: backend, Err: err.Error()}, nil
	}
	defer env.destroy()
	h := NewHistGen(g, cfg)
	n := cfg.MinOps + g.Intn(cfg.MaxOps-cfg.MinOps+1)
	res := &HistResult{Backend: backend}
	// catalog focus, every other history: a scripted opening with indexes on prefix-related fields (x / xy, n / n.a) over
	// a populated collection, then the shorter-named ones dropped: the longer-named indexes must keep every entry
	var script []*Op
	if cfg.Focus == "catalog" && histIndexOf(g)%2 == 0 {
		c := h.names[0]
		script = []*Op{{Kind: "CreateCollection", Coll: c}, {Kind: "CreateIndex", Coll: c, Field: "xy"}, {Kind: "CreateIndex", Coll: c, Field: "x"},
			{Kind: "CreateIndex", Coll: c, Field: "n.a"},
			{Kind: "Insert", Coll: c, Docs: []map[string]interface{}{h.doc(""), h.doc(""), {"x": int64(1), "xy": int64(2), "n": map[string]interface{}{"a": int64(3)}}, {"x": "s", "xy": nil}}},
			{Kind: "CreateIndex", Coll: c, Field: "n"},
			// an assignment below an indexed object, then assignments OF the object above an indexed path: both indexes follow,
			// and an object value replaces the stored object (it is not merged into it)
			{Kind: "Update", Q: QSpec{Coll: c}, KVs: map[string]interface{}{"n.a": int64(7)}},
			{Kind: "FindAll", Q: QSpec{Coll: c, Steps: []QStep{{Kind: "sort", Opts: []SortOpt{{"n", 1}}}}}, Mode: 2},
			{Kind: "Update", Q: QSpec{Coll: c}, KVs: map[string]interface{}{"n": map[string]interface{}{"a": int64(8), "b": int64(1)}}},
			{Kind: "FindAll", Q: QSpec{Coll: c, Steps: []QStep{{Kind: "where", C: &Crit{Kind: "cmp", Op: "OEq", Field: "n.a", Val: Operand{Lit: int64(8)}}}}}, Mode: 2},
			{Kind: "Update", Q: QSpec{Coll: c}, KVs: map[string]interface{}{"n": map[string]interface{}{"c": int64(2)}}},
			{Kind: "FindAll", Q: QSpec{Coll: c, Steps: []QStep{{Kind: "sort", Opts: []SortOpt{{"n.a", 1}}}}}, Mode: 2},
			{Kind: "DropIndex", Coll: c, Field: "x"},
			{Kind: "FindAll", Q: QSpec{Coll: c, Steps: []QStep{{Kind: "sort", Opts: []SortOpt{{"xy", 1}}}}}, Mode: 2},
			{Kind: "DropIndex", Coll: c, Field: "n"},
			{Kind: "FindAll", Q: QSpec{Coll: c, Steps: []QStep{{Kind: "sort", Opts: []SortOpt{{"n.a", -1}}}}}, Mode: 2}}
		n += len(script)
	}
	for i := 0; i < n; i++ {
		var op *Op
		if i < len(script) {
			op = script[i]
		} else {
			op = h.next()
		}
		if op.Kind == "Update" || op.Kind == "UpdateFunc" || op.Kind == "Delete" {
			op.Q = totalizeWindow(op.Q)
		}
		if op.Kind == "FindFirst" && !totalOrNoSort(op.Q) {
			op.Kind = "Exists"
		}
		h.dist[op.Kind]++
		r := op.exec(env)
		h.observe(op, r, env)
		if op.Kind == "FindAll" && !env.closed {
			for _, msg := range readOracles(env.db, op.Q, false) {
				res.OracleFails = append(res.OracleFails, fmt.Sprintf("%s; query %s (history seed step %d on %s)", msg, clip(op.Q.term(), 500), i, backend))
			}
		}
		var dump T
		if (dumpEvery || isWrite(op.Kind) || i == n-1) && !env.closed {
			dump, err = dumpStore(env.st.inner)
			if err != nil {
				dump = []T{int64(95), TS(err.Error())}
			}
		}
		res.Steps = append(res.Steps, StepRec{Op: op, Res: r, Dump: dump})
	}
	if !env.closed && !env.wedged && (cfg.Focus == "catalog" || histIndexOf(g)%3 == 0) {
		// a collection that was never created: every operation reports its absence (with any window, sort or criteria) and
		// changes nothing
		c := "zz-never"
		crit := &Crit{Kind: "cmp", Op: "OGt", Field: "a", Val: Operand{Lit: 1}}
		for _, op := range []*Op{
			{Kind: "FindAll", Q: QSpec{Coll: c, Steps: []QStep{{Kind: "limit", N: 0}}}, Mode: 2},
			{Kind: "FindAll", Q: QSpec{Coll: c, Steps: []QStep{{Kind: "where", C: crit}, {Kind: "sort", Opts: []SortOpt{{"a", -1}}}, {Kind: "skip", N: 2}}}, Mode: 2},
			{Kind: "Count", Q: QSpec{Coll: c, Steps: []QStep{{Kind: "where", C: crit}, {Kind: "limit", N: 0}}}},
			{Kind: "Count", Q: QSpec{Coll: c, Steps: []QStep{{Kind: "limit", N: 0}}}},
			{Kind: "ForEach", Q: QSpec{Coll: c, Steps: []QStep{{Kind: "limit", N: 0}}}, Stop: -1, Mode: 2},
			{Kind: "Exists", Q: QSpec{Coll: c, Steps: []QStep{{Kind: "limit", N: 0}}}}, {Kind: "FindFirst", Q: QSpec{Coll: c, Steps: []QStep{{Kind: "skip", N: 1}}}},
			{Kind: "FindById", Coll: c, Id: idPool[0]}, {Kind: "HasIndex", Coll: c, Field: "a"}, {Kind: "ListIndexes", Coll: c},
			{Kind: "DeleteById", Coll: c, Id: idPool[0]}, {Kind: "UpdateById", Coll: c, Id: idPool[0], U: Updater{Kind: "funid"}},
			{Kind: "Update", Q: QSpec{Coll: c, Steps: []QStep{{Kind: "limit", N: 0}}}, KVs: map[string]interface{}{"a": 1}},
			{Kind: "Delete", Q: QSpec{Coll: c, Steps: []QStep{{Kind: "limit", N: 0}}}}, {Kind: "UpdateFunc", Q: QSpec{Coll: c}, U: Updater{Kind: "funid"}},
			{Kind: "CreateIndex", Coll: c, Field: "a"}, {Kind: "DropIndex", Coll: c, Field: "a"}, {Kind: "DropCollection", Coll: c}, {Kind: "Export", Coll: c},
			{Kind: "HasCollection", Coll: c},
		} {
			h.dist[op.Kind]++
			r := op.exec(env)
			dump, err := dumpStore(env.st.inner)
			if err != nil {
				dump = []T{int64(95), TS(err.Error())}
			}
			res.Steps = append(res.Steps, StepRec{Op: op, Res: r, Dump: dump})
		}
	}
	if !env.closed && !env.wedged && cfg.Focus == "ids" {
		// the same document OBJECT twice in one batch: the id generated for its first occurrence is a duplicate at the second
		for _, op := range []*Op{{Kind: "CreateCollection", Coll: "zz-dup"},
			{Kind: "Insert", Coll: "zz-dup", Docs: []map[string]interface{}{{"a": int64(1)}, {"a": int64(1)}}, DupPtr: true},
			{Kind: "Count", Q: QSpec{Coll: "zz-dup"}}} {
			h.dist[op.Kind]++
			r := op.exec(env)
			dump, err := dumpStore(env.st.inner)
			if err != nil {
				dump = []T{int64(95), TS(err.Error())}
			}
			res.Steps = append(res.Steps, StepRec{Op: op, Res: r, Dump: dump})
		}
	}
	if cfg.AllowClose {
		// after Close every public operation must return an error (never panic, never block): one of each
		res.Steps = append(res.Steps, StepRec{Op: &Op{Kind: "Close"}, Res: (&Op{Kind: "Close"}).exec(env)})
		c := pickOf(g, h.names)
		for _, op := range []*Op{
			{Kind: "Count", Q: QSpec{Coll: c}}, {Kind: "Count", Q: h.query(c, true, true)}, {Kind: "FindAll", Q: QSpec{Coll: c}},
			{Kind: "Exists", Q: QSpec{Coll: c}}, {Kind: "FindFirst", Q: QSpec{Coll: c}}, {Kind: "ForEach", Q: QSpec{Coll: c}, Stop: -1, Mode: 2},
			{Kind: "FindById", Coll: c, Id: idPool[0]}, {Kind: "HasCollection", Coll: c}, {Kind: "ListCollections"}, {Kind: "HasIndex", Coll: c, Field: "a"},
			{Kind: "ListIndexes", Coll: c}, {Kind: "CreateCollection", Coll: "zz"}, {Kind: "DropCollection", Coll: c},
			{Kind: "Insert", Coll: c, Docs: []map[string]interface{}{h.doc(idPool[3])}}, {Kind: "Save", Coll: c, Docs: []map[string]interface{}{h.doc(idPool[3])}},
			{Kind: "DeleteById", Coll: c, Id: idPool[0]}, {Kind: "UpdateById", Coll: c, Id: idPool[0], U: Updater{Kind: "funid"}},
			{Kind: "ReplaceById", Coll: c, Id: idPool[0], Docs: []map[string]interface{}{h.doc(idPool[0])}},
			{Kind: "Update", Q: QSpec{Coll: c}, KVs: map[string]interface{}{"a": 1}}, {Kind: "UpdateFunc", Q: QSpec{Coll: c}, U: Updater{Kind: "funid"}},
			{Kind: "Delete", Q: QSpec{Coll: c}}, {Kind: "CreateIndex", Coll: c, Field: "a"}, {Kind: "DropIndex", Coll: c, Field: "a"},
		} {
			h.dist[op.Kind]++
			res.Steps = append(res.Steps, StepRec{Op: op, Res: op.exec(env)})
		}
	}
	return res, h
}

// a number derived from the generator's seed, stable for one history
func histIndexOf(g *Gen) int { return int(g.seed0 % 1000003) }

// replay a fixed list of ops (shrinking, corpus)
func runOps(ops []*Op, backend string) *HistResult {
	env, err := newEnv(backend)
	if err != nil {
		return &HistResult{Backend: backend, Err: err.Error()}
	}
	defer env.destroy()
	res := &HistResult{Backend: backend}
	for _, op := range ops {
		r := op.exec(env)
		dump, err := dumpStore(env.st.inner)
		if err != nil {
			dump = []T{int64(95), TS(err.Error())}
		}
		res.Steps = append(res.Steps, StepRec{Op: op, Res: r, Dump: dump})
	}
	return res
}

func (r *HistResult) caseTerm() string {
	var sb strings.Builder
	sb.WriteString("(HHist [")
	for i, s := range r.Steps {
		if i > 0 {
			sb.WriteString(";")
		}
		sb.WriteString("(")
		sb.WriteString(s.Op.term())
		sb.WriteString(",")
		sb.WriteString(Tstr(s.Res))
		sb.WriteString(",")
		if s.Dump != nil {
			sb.WriteString("(Some " + Tstr(s.Dump) + ")")
		} else {
			sb.WriteString("None")
		}
		sb.WriteString(")")
	}
	sb.WriteString("])")
	return sb.String()
}

func errKind(res T) string {
	if l, ok := res.([]T); ok && len(l) > 0 {
		if z, ok := l[0].(int64); ok {
			return fmt.Sprintf("e%d", z)
		}
	}
	return "?"
}

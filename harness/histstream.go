package main

import (
	"fmt"
	"sort"
	"strings"
)

func histCfg(focus, tier string, allowClose bool) HistCfg {
	cfg := HistCfg{MinOps: 12, MaxOps: 45, Colls: 2, PMalformed: 0.06, Focus: focus, AllowClose: allowClose}
	if focus == "catalog" {
		cfg.Colls = 4
	}
	if tier == "thorough" {
		cfg.MaxOps = 70
	}
	return cfg
}

func histSeed(seed int64, i int) int64 { return seed*1000003 + int64(i)*7919 + 17 }

func backendsOf(spec string) []string {
	if spec == "" || spec == "all" {
		return []string{"bbolt", "badger"}
	}
	return strings.Split(spec, ",")
}

func runHistStream(seed int64, n int, out, backendSpec, focus, tier string) *RunReport {
	cs := &CaseSet{}
	dist := map[string]int{}
	errs := map[string]int{}
	crits := map[string]int{}
	distinct := map[string]bool{}
	evals := 0
	var samples []interface{}
	var fails []string
	backends := backendsOf(backendSpec)
	for i := 0; i < n; i++ {
		for bi, be := range backends {
			g := NewGen(histSeed(seed, i))
			allowClose := be != "badger"
			res, h := runHistory(g, histCfg(focus, tier, allowClose && focus == "reopen"), be, false)
			if res.Err != "" {
				fails = append(fails, "cannot run history: "+res.Err)
				continue
			}
			cs.Add(res.caseTerm(), i < 2 && bi == 0)
			for _, m := range res.OracleFails {
				if len(fails) < 20 {
					fails = append(fails, m)
				}
			}
			for _, s := range res.Steps {
				evals++
				ek := errKind(s.Res)
				errs[ek]++
				if ek == "e99" && len(fails) < 10 {
					fails = append(fails, fmt.Sprintf("panic in %s on %s: %s (history seed %d step %s)", s.Op.Kind, be, Tstr(s.Res), histSeed(seed, i), s.Op.term()))
				}
				key := s.Op.Kind + "/" + ek + "/" + resultShape(s.Res)
				if ek == "e0" {
					distinct[key] = true
				}
			}
			for k, v := range h.dist {
				dist[k] += v
			}
			for k, v := range h.crits {
				crits[k] += v
			}
			if i == 0 && bi == 0 && len(res.Steps) > 2 {
				for _, s := range res.Steps[:3] {
					samples = append(samples, map[string]string{"op": clip(s.Op.term(), 300), "impl_result": clip(Tstr(s.Res), 300)})
				}
			}
		}
	}
	files := cs.Write(out, "hist"+gSuffix)
	return &RunReport{Stream: "hist" + gSuffix, Seed: seed, Evaluations: evals, Distinct: len(distinct),
		Rule:         "one evaluation = one public API call executed on the implementation and on the model, result and full raw key space compared; distinct non-trivial = distinct (operation kind, result shape) pairs among successful calls",
		Samples:      samples, OracleFails: fails, CaseFiles: files,
		Distribution: map[string]interface{}{"histories": n, "backends": backends, "ops": dist, "results": errs, "criteria_nodes": crits}}
}

func clip(s string, n int) string {
	if len(s) > n {
		return s[:n] + "..."
	}
	return s
}

// a coarse shape of a result: how many documents / which boolean
func resultShape(res T) string {
	l, ok := res.([]T)
	if !ok || len(l) < 2 {
		return "?"
	}
	switch p := l[1].(type) {
	case int64:
		if p > 3 {
			return "n>3"
		}
		return fmt.Sprintf("n%d", p)
	case []T:
		n := len(p)
		if n > 3 {
			return "l>3"
		}
		return fmt.Sprintf("l%d", n)
	}
	return "?"
}

func sortedKeysInt(m map[string]int) []string {
	ks := make([]string, 0, len(m))
	for k := range m {
		ks = append(ks, k)
	}
	sort.Strings(ks)
	return ks
}

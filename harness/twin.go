package main

// C02: index transparency on twin collections differing only in their index sets.
// C03 / C06: bulk operations at scale with invocation counting and raw key audits.

import (
	"fmt"
	"math"
	"sort"
	"strings"
	"time"

	d "github.com/ostafen/clover/v2/document"
	"github.com/ostafen/clover/v2/query"
)

// force a value into the key-order domain (numbers within 2^53, times 1970..2262), recursively
func keyDomSanitize(v interface{}) interface{} {
	switch x := v.(type) {
	case int64:
		if x > 1<<53 || x < -(1<<53) {
			return x % 1000
		}
	case uint64:
		if x > 1<<53 {
			return x % 1000
		}
	case float64:
		if math.IsNaN(x) {
			return float64(0)
		}
	case time.Time:
		if x.Unix() < 0 || x.Unix() > 9000000000 {
			return time.Unix(1700000000+int64(x.Nanosecond()%1000), int64(x.Nanosecond())).UTC()
		}
	case []interface{}:
		for i := range x {
			x[i] = keyDomSanitize(x[i])
		}
	case map[string]interface{}:
		for k := range x {
			x[k] = keyDomSanitize(x[k])
		}
	}
	return v
}

type twinCfg struct {
	name   string
	before []string // indexes created before the data
	after  []string // indexes created after the data
}

var twinCfgs = []twinCfg{
	{"t0", nil, nil},
	{"t1", []string{"a"}, nil},
	{"t2", nil, []string{"a"}},
	{"t3", []string{"b"}, []string{"s"}},
	{"t4", []string{"x"}, []string{"xy"}},
	{"t5", []string{"n.a"}, []string{"n"}},
	{"t6", []string{"a", "x"}, []string{"b", "t"}},
}

func runTwinStream(seed int64, n int, out, backendSpec string) *RunReport {
	f := &failer{}
	cs := &CaseSet{}
	evals := 0
	distinct := map[string]bool{}
	qshapes := map[string]int{}
	known := map[string]bool{}
	var samples []interface{}
	for round := 0; round < n; round++ {
		for _, be := range backendsOf(backendSpec) {
			g := NewGen(histSeed(seed, round) + 23)
			h := NewHistGen(g, HistCfg{Colls: 1})
			// bias the query generator towards the fields some twin has an index on
			h.colls["t0"] = &collState{indexes: []string{"a", "b", "x", "xy", "n", "n.a", "s", "t"}}
			env, err := newEnv(be)
			if err != nil {
				f.failf("open: %v", err)
				continue
			}
			var steps []StepRec
			rec := func(op *Op) T {
				r := op.exec(env)
				dump, _ := dumpStore(env.st.inner)
				steps = append(steps, StepRec{Op: op, Res: r, Dump: dump})
				return r
			}
			// documents in the key domain, with duplicate / missing / nil / mixed-type values
			ndocs := 6 + g.Intn(14)
			docs := make([]map[string]interface{}, ndocs)
			for i := range docs {
				docs[i] = keyDomSanitize(h.doc(fmt.Sprintf("%08x-0000-4000-8000-%012x", i, g.Intn(1<<30)))).(map[string]interface{})
			}
			for _, tc := range twinCfgs {
				rec(&Op{Kind: "CreateCollection", Coll: tc.name})
				for _, fld := range tc.before {
					rec(&Op{Kind: "CreateIndex", Coll: tc.name, Field: fld})
				}
				half := ndocs / 2
				rec(&Op{Kind: "Insert", Coll: tc.name, Docs: cloneDocs(docs[:half])})
				for _, fld := range tc.after {
					rec(&Op{Kind: "CreateIndex", Coll: tc.name, Field: fld})
				}
				rec(&Op{Kind: "Insert", Coll: tc.name, Docs: cloneDocs(docs[half:])})
			}
			// identical point writes on every twin
			for k := 0; k < 4; k++ {
				id := docs[g.Intn(ndocs)]["_id"].(string)
				var mk func(c string) *Op
				switch g.Intn(3) {
				case 0:
					u := Updater{Kind: pickOf(g, []string{"funset", "funcopyset", "funincr"}), Field: pickOf(g, []string{"a", "b", "x", "n.a"}), Val: keyDomSanitize(h.fieldValue())}
					mk = func(c string) *Op { return &Op{Kind: "UpdateById", Coll: c, Id: id, U: u} }
				case 1:
					mk = func(c string) *Op { return &Op{Kind: "DeleteById", Coll: c, Id: id} }
				default:
					nd := keyDomSanitize(h.doc(id)).(map[string]interface{})
					mk = func(c string) *Op {
						return &Op{Kind: "ReplaceById", Coll: c, Id: id, Docs: cloneDocs([]map[string]interface{}{nd})}
					}
				}
				for _, tc := range twinCfgs {
					rec(mk(tc.name))
				}
			}
			contents := func(c string) string {
				all, _ := env.db.FindAll(query.NewQuery(c))
				return Tstr(docsById(all))
			}
			compareTwins := func(what string) {
				base := contents("t0")
				for _, tc := range twinCfgs[1:] {
					if contents(tc.name) != base {
						f.failf("%s: contents of %s (indexes %v+%v) differ from the un-indexed twin on %s", what, tc.name, tc.before, tc.after, be)
					}
				}
			}
			compareTwins("after the point writes")
			// queries
			// systematic part: every indexed field, scanned whole and by half-open ranges, in both directions
			var fixed []QSpec
			for _, fld := range []string{"a", "b", "x", "xy", "n", "n.a", "s", "t"} {
				for _, dir := range []int{1, -1} {
					fixed = append(fixed, QSpec{Coll: "t0", Steps: []QStep{{Kind: "sort", Opts: []SortOpt{{fld, dir}}}}})
					lit := pickOf(g, []interface{}{int(g.Intn(6)), "a", nil, float64(2.5)})
					op := pickOf(g, []string{"OGt", "OGtEq", "OLt", "OLtEq"})
					fixed = append(fixed, QSpec{Coll: "t0", Steps: []QStep{{Kind: "where", C: &Crit{Kind: "cmp", Op: op, Field: fld, Val: Operand{Lit: lit}}}, {Kind: "sort", Opts: []SortOpt{{fld, dir}}}}})
				}
			}
			// criteria served by one index, sort served by ANOTHER one (both exist in some twins, neither in others)
			for _, pr := range [][2]string{{"a", "b"}, {"b", "a"}, {"x", "xy"}, {"xy", "x"}, {"n", "a"}, {"a", "n.a"}, {"s", "a"}, {"a", "t"}} {
				for _, dir := range []int{1, -1} {
					lit := pickOf(g, []interface{}{int(g.Intn(6)), int(g.Intn(3)), "a", float64(2.5)})
					op := pickOf(g, []string{"OGt", "OGtEq", "OLt", "OLtEq", "OEq"})
					fixed = append(fixed, QSpec{Coll: "t0", Steps: []QStep{{Kind: "where", C: &Crit{Kind: "cmp", Op: op, Field: pr[0], Val: Operand{Lit: lit}}}, {Kind: "sort", Opts: []SortOpt{{pr[1], dir}}}}})
					if g.Bool() {
						fixed = append(fixed, QSpec{Coll: "t0", Steps: []QStep{{Kind: "where", C: &Crit{Kind: "cmp", Op: op, Field: pr[0], Val: Operand{Lit: lit}}}, {Kind: "sort", Opts: []SortOpt{{pr[1], dir}}}, {Kind: "skip", N: 1}, {Kind: "limit", N: 2}}})
					}
				}
			}
			// a lower bound only, walked backwards (values of higher-ranked types lie above every numeric bound)
			for _, fld := range []string{"a", "b", "x", "s"} {
				for _, op := range []string{"OGt", "OGtEq"} {
					fixed = append(fixed, QSpec{Coll: "t0", Steps: []QStep{{Kind: "where", C: &Crit{Kind: "cmp", Op: op, Field: fld, Val: Operand{Lit: int(g.Intn(4))}}}, {Kind: "sort", Opts: []SortOpt{{fld, -1}}}}})
					fixed = append(fixed, QSpec{Coll: "t0", Steps: []QStep{{Kind: "where", C: &Crit{Kind: "cmp", Op: op, Field: fld, Val: Operand{Lit: int(g.Intn(4))}}}, {Kind: "sort", Opts: []SortOpt{{fld, -1}}}, {Kind: "limit", N: 1}}})
				}
			}
			// equality with nil on an indexed field (documents lacking the field share the nil key but do not match), alone, with
			// a skip, and sorted by that field in both directions
			for _, fld := range []string{"a", "b", "x", "n.a"} {
				c := &Crit{Kind: "cmp", Op: "OEq", Field: fld, Val: Operand{Lit: nil}}
				fixed = append(fixed, QSpec{Coll: "t0", Steps: []QStep{{Kind: "where", C: c}}})
				fixed = append(fixed, QSpec{Coll: "t0", Steps: []QStep{{Kind: "where", C: &Crit{Kind: "isnil", Field: fld}}, {Kind: "skip", N: 1}}})
				for _, dir := range []int{1, -1} {
					fixed = append(fixed, QSpec{Coll: "t0", Steps: []QStep{{Kind: "where", C: c}, {Kind: "sort", Opts: []SortOpt{{fld, dir}}}, {Kind: "skip", N: 1 + g.Intn(2)}}})
				}
				fixed = append(fixed, QSpec{Coll: "t0", Steps: []QStep{{Kind: "where", C: &Crit{Kind: "not", A: &Crit{Kind: "not", A: &Crit{Kind: "cmp", Op: pickOf(g, []string{"OGt", "OLtEq"}), Field: fld, Val: Operand{Lit: int(g.Intn(5))}}}}}}})
			}
			// In on an indexed field with operands that are references to another field (in both spellings) next to literals:
			// whatever range the planner derives from the literals must not hide documents matching through the reference
			for _, fld := range []string{"a", "b", "x"} {
				other := map[string]string{"a": "b", "b": "a", "x": "a"}[fld]
				for _, ref := range []Operand{{Lit: "$" + other}, {IsRef: true, Ref: other}} {
					fixed = append(fixed, QSpec{Coll: "t0", Steps: []QStep{{Kind: "where", C: &Crit{Kind: "in", Field: fld, Vals: []Operand{{Lit: int(g.Intn(3))}, {Lit: int(3 + g.Intn(2))}, ref}}}}})
					fixed = append(fixed, QSpec{Coll: "t0", Steps: []QStep{{Kind: "where", C: &Crit{Kind: "in", Field: fld, Vals: []Operand{ref, {Lit: "a"}}}}, {Kind: "sort", Opts: []SortOpt{{fld, 1}}}}})
				}
			}
			// conjunctions of two bounds on one field, every pairing of inclusive / exclusive / equality, literals on and next to each other
			for _, fld := range []string{"a", "b", "x"} {
				for _, op1 := range []string{"OGt", "OGtEq", "OLt", "OLtEq", "OEq"} {
					for _, op2 := range []string{"OGt", "OGtEq", "OLt", "OLtEq", "OEq"} {
						l1 := g.Intn(5)
						l2 := l1 + g.Intn(3) - 1
						if fld == "a" { // on one field the three relative positions of the two literals in turn
							l1 = 2
							l2 = 1 + (len(fixed) % 3)
						}
						c1 := &Crit{Kind: "cmp", Op: op1, Field: fld, Val: Operand{Lit: int(l1)}}
						c2 := &Crit{Kind: "cmp", Op: op2, Field: fld, Val: Operand{Lit: pickOf(g, []interface{}{int(l2), float64(l2), uint8(l1 + 1)})}}
						if g.Intn(4) == 0 {
							c1 = &Crit{Kind: "not", A: c1}
						}
						if g.Intn(4) == 0 {
							c2 = &Crit{Kind: "not", A: c2}
						}
						fixed = append(fixed, QSpec{Coll: "t0", Steps: []QStep{{Kind: "where", C: &Crit{Kind: "and", A: c1, B: c2}}}})
					}
				}
			}
			// constant additions (they draw nothing from the PRNG): a limit lifted again by a later negative one, direction 0,
			// a negated non-comparison leaf to the left of a range on another indexed field
			fixed = append(fixed,
				QSpec{Coll: "t0", Steps: []QStep{{Kind: "sort", Opts: []SortOpt{{"a", 1}, {"_id", 1}}}, {Kind: "skip", N: 1}, {Kind: "limit", N: 2}, {Kind: "limit", N: -1}}},
				QSpec{Coll: "t0", Steps: []QStep{{Kind: "limit", N: 3}, {Kind: "limit", N: -5}}},
				QSpec{Coll: "t0", Steps: []QStep{{Kind: "sort", Opts: []SortOpt{{"a", 0}}}, {Kind: "skip", N: 1}, {Kind: "limit", N: 2}}},
				QSpec{Coll: "t0", Steps: []QStep{{Kind: "sort", Opts: []SortOpt{{"x", 0}}}}},
				QSpec{Coll: "t0", Steps: []QStep{{Kind: "where", C: &Crit{Kind: "and", A: &Crit{Kind: "notexists", Field: "s"}, B: &Crit{Kind: "cmp", Op: "OGt", Field: "xy", Val: Operand{Lit: int(1)}}}}}},
				QSpec{Coll: "t0", Steps: []QStep{{Kind: "where", C: &Crit{Kind: "and", A: &Crit{Kind: "not", A: &Crit{Kind: "like", Field: "s", Pat: "a"}}, B: &Crit{Kind: "cmp", Op: "OLtEq", Field: "a", Val: Operand{Lit: int(4)}}}}}},
				QSpec{Coll: "t0", Steps: []QStep{{Kind: "where", C: &Crit{Kind: "and", A: &Crit{Kind: "not", A: &Crit{Kind: "in", Field: "b", Vals: []Operand{{Lit: int(1)}}}}, B: &Crit{Kind: "cmp", Op: "OGtEq", Field: "x", Val: Operand{Lit: int(2)}}}}}})
			for k := 0; k < 25+len(fixed); k++ {
				var q0 QSpec
				if k < len(fixed) {
					q0 = fixed[k]
				} else {
					q0 = h.query("t0", true, true)
				}
				sanitizeQuery(&q0)
				opts, skip, limit, hasCrit := q0.effective()
				windowed := skip > 0 || limit >= 0
				shape := fmt.Sprintf("crit=%v/sort=%d/window=%v", hasCrit, len(opts), windowed)
				qshapes[shape]++
				var ref []*d.Document
				var refErr error
				refCount := 0
				for ti, tc := range twinCfgs {
					q := q0
					q.Coll = tc.name
					qq := q.build()
					var res []*d.Document
					var err error
					var cnt int
					panicked := ""
					func() {
						defer func() {
							if r := recover(); r != nil {
								panicked = fmt.Sprint(r)
							}
						}()
						res, err = env.db.FindAll(qq)
						cnt, _ = env.db.Count(qq)
					}()
					evals++
					if panicked != "" {
						f.failf("FindAll/Count panicked on %s (indexes %v+%v): %s; query %s", tc.name, tc.before, tc.after, panicked, clip(q.term(), 500))
						continue
					}
					if ti == 0 {
						ref, refErr, refCount = res, err, cnt
						continue
					}
					desc := fmt.Sprintf("query %s on %s (indexes %v then %v, backend %s)", clip(q.term(), 600), tc.name, tc.before, tc.after, be)
					if (err == nil) != (refErr == nil) {
						f.failf("error with index but not without (or vice versa): %v vs %v; %s", err, refErr, desc)
						continue
					}
					if err != nil {
						continue
					}
					if cnt != refCount {
						f.failf("Count = %d with indexes, %d without; %s", cnt, refCount, desc)
					}
					if len(res) != len(ref) {
						f.failf("FindAll returns %d documents with indexes, %d without; %s", len(res), len(ref), desc)
						continue
					}
					if len(opts) > 0 {
						for i := range res {
							if Tstr(keyTuple(opts, res[i])) != Tstr(keyTuple(opts, ref[i])) {
								f.failf("sort-key sequences differ at position %d with indexes; %s", i, desc)
								break
							}
						}
					}
					if (len(opts) == 0 && !windowed) || (len(opts) > 0 && (!windowed || totalOrNoSort(q))) {
						if !sameDocs(res, ref) {
							f.failf("different documents selected with indexes; %s", desc)
						}
					}
					distinct[shape+fmt.Sprintf("/%s/n%d", tc.name, min3(len(res)))] = true
				}
				if len(samples) < 3 && k == 3 {
					samples = append(samples, map[string]interface{}{"query": clip(q0.term(), 400), "documents": ndocs, "matched_without_index": len(ref), "backend": be})
				}
			}
			// bulk writes through queries whose selection is determined (no window, or a total order)
			for k := 0; k < 5; k++ {
				q0 := h.query("t0", true, true)
				sanitizeQuery(&q0)
				_, skip, limit, _ := q0.effective()
				if (skip > 0 || limit >= 0) && (!totalOrNoSort(q0) || len(sortOf(q0)) == 0) {
					continue
				}
				kind := g.Intn(3)
				u := Updater{Kind: pickOf(g, []string{"funset", "funcopyset", "funincr"}), Field: pickOf(g, []string{"a", "b", "x", "n.a"}), Val: keyDomSanitize(h.fieldValue())}
				kvs := map[string]interface{}{pickOf(g, []string{"a", "b", "x", "n.a", "n.a", "n.b"}): int64(g.Intn(8))}
				for _, tc := range twinCfgs {
					q := q0
					q.Coll = tc.name
					switch kind {
					case 0:
						rec(&Op{Kind: "Delete", Q: q})
					case 1:
						rec(&Op{Kind: "UpdateFunc", Q: q, U: u})
					default:
						rec(&Op{Kind: "Update", Q: q, KVs: kvs})
					}
					evals++
				}
				compareTwins(fmt.Sprintf("after bulk write %d through %s", kind, clip(q0.term(), 300)))
			}
			// known finding K-float-key: outside the key domain an index changes results
			if round == 0 {
				env.db.CreateCollection("kf0")
				env.db.CreateCollection("kf1")
				env.db.CreateIndex("kf1", "a")
				for _, c := range []string{"kf0", "kf1"} {
					env.db.Insert(c, d.NewDocumentOf(map[string]interface{}{"_id": idPool[0], "a": int64(1 << 53)}),
						d.NewDocumentOf(map[string]interface{}{"_id": idPool[1], "a": int64(1<<53 + 1)}))
				}
				qf := func(c string) *query.Query { return query.NewQuery(c).Where(query.Field("a").Gt(int64(1 << 53))) }
				r0, _ := env.db.FindAll(qf("kf0"))
				r1, _ := env.db.FindAll(qf("kf1"))
				if len(r0) != len(r1) {
					known[fmt.Sprintf("K-float-key: a > 2^53 returns %d document(s) without an index and %d with an index on a (2^53+1 shares the float64 key of 2^53)", len(r0), len(r1))] = true
				}
			}
			hr := &HistResult{Steps: steps, Backend: be}
			cs.Add(hr.caseTerm(), false)
			env.destroy()
		}
	}
	files := cs.Write(out, "twin")
	return &RunReport{Stream: "twin", Seed: seed, Evaluations: evals, Distinct: len(distinct),
		Rule:         "one evaluation = one FindAll+Count (or bulk write) on one of seven twin collections holding the same key-domain documents under different index sets (none, filter field before/after the data, unrelated, prefix pair x/xy, dotted n/n.a, several), compared with the un-indexed twin; every twin history also goes to the model; distinct = distinct (query shape, twin, result size)",
		OracleFails:  f.fails, CaseFiles: files, Samples: samples, Known: keysOf(known),
		Distribution: map[string]interface{}{"rounds": n, "backends": backendsOf(backendSpec), "query_shapes": qshapes}}
}

func sortOf(q QSpec) []SortOpt { o, _, _, _ := q.effective(); return o }

func cloneDocs(ds []map[string]interface{}) []map[string]interface{} {
	out := make([]map[string]interface{}, len(ds))
	for i, m := range ds {
		out[i] = copyCanon(m).(map[string]interface{})
	}
	return out
}

// literals of twin queries stay inside the key domain too
func sanitizeQuery(q *QSpec) {
	var walk func(c *Crit)
	walk = func(c *Crit) {
		if c == nil {
			return
		}
		if !c.Val.IsRef {
			c.Val.Lit = sanitizeLit(c.Val.Lit)
		}
		for i := range c.Vals {
			if !c.Vals[i].IsRef {
				c.Vals[i].Lit = sanitizeLit(c.Vals[i].Lit)
			}
		}
		walk(c.A)
		walk(c.B)
	}
	for _, s := range q.Steps {
		if s.Kind == "where" {
			walk(s.C)
		}
	}
}

func sanitizeLit(v interface{}) interface{} {
	switch x := v.(type) {
	case int64, uint64, float64, time.Time, []interface{}, map[string]interface{}:
		return keyDomSanitize(x)
	}
	return v
}

// ---------------------------------------------------------------- scale (C03, C06)

func scaleDoc(i int) map[string]interface{} {
	return map[string]interface{}{
		"_id": fmt.Sprintf("%08x-5555-4666-8777-%012x", i, i*7919%100003),
		"k":   int64(i), "g": int64(i % 7), "a": int64(i % 13), "s": strings.Repeat("p", 40+i%50),
	}
}

func runScaleStream(seed int64, n int, out, backendSpec, tier string) *RunReport {
	f := &failer{}
	cs := &CaseSet{}
	evals := 0
	distinct := map[string]bool{}
	sizesRun := map[string]int{}
	var samples []interface{}
	sizes := []int{0, 1, 50, 300, 1500}
	if tier == "thorough" {
		sizes = []int{0, 1, 50, 300, 1500, 5000, 12000}
	}
	idxSets := [][]string{{}, {"a"}, {"g", "a"}, {"k"}}
	type scenario struct {
		name string
		q    func(c string) *query.Query
		qs   QSpec
	}
	g := NewGen(seed*17 + 5)
	for round := 0; round < n; round++ {
		for _, be := range backendsOf(backendSpec) {
			for _, size := range sizes {
				for sc := 0; sc < 8; sc++ {
					size := size
					if sc == 7 && size == 1500 {
						size = 6000 // a copy large enough to be flushed in several batches and to grow the bbolt file past its mapping
					}
					idxs := idxSets[(round+size+sc)%len(idxSets)]
					if size >= 300 && sc <= 1 {
						idxs = []string{"a"} // the rewritten field is indexed and drives the selection
					}
					if sc == 4 && len(idxs) == 0 {
						idxs = []string{"g", "a"}
					}
					env, err := newEnv(be)
					if err != nil {
						f.failf("open: %v", err)
						continue
					}
					db := env.db
					small := size <= 300
					var steps []StepRec
					rec := func(op *Op) T {
						r := op.exec(env)
						if small {
							dump, _ := dumpStore(env.st.inner)
							steps = append(steps, StepRec{Op: op, Res: r, Dump: dump})
						}
						return r
					}
					rec(&Op{Kind: "CreateCollection", Coll: "c"})
					var after []string
					for i, fld := range idxs {
						if i%2 == 0 {
							rec(&Op{Kind: "CreateIndex", Coll: "c", Field: fld})
						} else {
							after = append(after, fld)
						}
					}
					for lo := 0; lo < size; lo += 500 {
						hi := lo + 500
						if hi > size {
							hi = size
						}
						batch := make([]map[string]interface{}, hi-lo)
						for i := lo; i < hi; i++ {
							batch[i-lo] = scaleDoc(i)
							if sc == 7 && size >= 6000 {
								batch[i-lo]["pad"] = strings.Repeat("x", 300+i%200) // enough bytes for the copy to outgrow the file's mapping
							}
						}
						rec(&Op{Kind: "Insert", Coll: "c", Docs: batch})
					}
					for _, fld := range after {
						rec(&Op{Kind: "CreateIndex", Coll: "c", Field: fld})
					}
					// the selecting query
					var qs QSpec
					qsel := (sc + round) % 5
					if size >= 300 && sc <= 1 {
						qsel = 1 + 3*sc // a range on a / a sort on a alone: the scan runs through the index being rewritten
					}
					switch qsel {
					case 0:
						qs = QSpec{Coll: "c"}
					case 1:
						qs = QSpec{Coll: "c", Steps: []QStep{{Kind: "where", C: &Crit{Kind: "cmp", Op: "OGtEq", Field: "a", Val: Operand{Lit: int64(0)}}}}}
					case 2:
						qs = QSpec{Coll: "c", Steps: []QStep{{Kind: "where", C: &Crit{Kind: "cmp", Op: "OEq", Field: "g", Val: Operand{Lit: 3}}}}}
					case 3:
						qs = QSpec{Coll: "c", Steps: []QStep{{Kind: "where", C: &Crit{Kind: "cmp", Op: "OLt", Field: "a", Val: Operand{Lit: 9}}},
							{Kind: "sort", Opts: []SortOpt{{"a", -1}, {"_id", 1}}}, {Kind: "skip", N: 3}, {Kind: "limit", N: 120}}}
					default:
						qs = QSpec{Coll: "c", Steps: []QStep{{Kind: "sort", Opts: []SortOpt{{"a", 1}}}}}
					}
					if sc == 7 && size >= 300 {
						qs = QSpec{Coll: "c"} // copy everything
					}
					if sc == 6 { // Delete through a sorted window without a limit
						qs = QSpec{Coll: "c", Steps: []QStep{{Kind: "sort", Opts: []SortOpt{{"k", -1}}}, {Kind: "skip", N: 4}}}
					}
					// a sibling collection with its own index must never be affected
					rec(&Op{Kind: "CreateCollection", Coll: "c2"})
					rec(&Op{Kind: "CreateIndex", Coll: "c2", Field: "a"})
					sib := make([]map[string]interface{}, 8)
					for i := range sib {
						sib[i] = scaleDoc(i)
					}
					rec(&Op{Kind: "Insert", Coll: "c2", Docs: sib})
					if sc == 0 || len(idxs) == 2 {
						// read agreement at this size (ties in g and a; sorts in memory and through indexes; windows)
						for _, rq := range []QSpec{
							{Coll: "c", Steps: []QStep{{Kind: "sort", Opts: []SortOpt{{"g", 1}}}, {Kind: "skip", N: 10}, {Kind: "limit", N: 5}}},
							{Coll: "c", Steps: []QStep{{Kind: "sort", Opts: []SortOpt{{"s", -1}, {"_id", 1}}}, {Kind: "skip", N: 10}, {Kind: "limit", N: 5}}},
							{Coll: "c", Steps: []QStep{{Kind: "where", C: &Crit{Kind: "cmp", Op: "OGtEq", Field: "a", Val: Operand{Lit: 2}}}, {Kind: "sort", Opts: []SortOpt{{"g", -1}}}, {Kind: "limit", N: 7}}},
							{Coll: "c", Steps: []QStep{{Kind: "where", C: &Crit{Kind: "cmp", Op: "OLt", Field: "g", Val: Operand{Lit: 5}}}, {Kind: "sort", Opts: []SortOpt{{"a", 1}}}, {Kind: "skip", N: 3}}},
							{Coll: "c", Steps: []QStep{{Kind: "skip", N: 2}, {Kind: "limit", N: 4}}},
						} {
							for _, msg := range readOracles(db, rq, false) {
								f.failf("%s; query %s; size %d, indexes %v, backend %s", msg, clip(rq.term(), 300), size, idxs, be)
							}
							evals++
						}
					}
					before, _ := db.FindAll(query.NewQuery("c"))
					beforeById := map[string]*d.Document{}
					for _, doc := range before {
						beforeById[doc.ObjectId()] = doc
					}
					selected, _ := db.FindAll(qs.build())
					selIds := map[string]bool{}
					for _, doc := range selected {
						selIds[doc.ObjectId()] = true
					}
					desc := fmt.Sprintf("size %d, indexes %v, backend %s, query %s", size, idxs, be, clip(qs.term(), 300))
					sizesRun[fmt.Sprint(size)]++
					auditKeys := func(what string, ndocs int, nidx int, present bool) {
						dump, err := dumpStore(env.st.inner)
						if err != nil {
							return
						}
						want := 1 + 8*2 // the sibling collection: metadata + 8 documents + 8 index entries
						if present {
							want += 1 + ndocs*(1+nidx)
						}
						if len(dump.([]T)) != want {
							f.failf("%s: the store holds %d keys, expected %d (1 metadata + %d documents x (1 + %d indexes)); %s", what, len(dump.([]T)), want, ndocs, nidx, desc)
						}
					}
					switch sc {
					case 0, 1: // UpdateFunc rewriting the filtered / sorted / indexed field, in place or on a copy
						u := Updater{Kind: "funincr", Field: "a"}
						if sc == 1 {
							u = Updater{Kind: "funcopyset", Field: "a", Val: int64(77)}
						}
						op := &Op{Kind: "UpdateFunc", Q: qs, U: u}
						r := rec(op)
						evals++
						if errKind(r) != "e0" {
							f.failf("UpdateFunc failed: %s; %s", Tstr(r), desc)
							break
						}
						for id := range selIds {
							if op.UpdCalls[id] != 1 {
								f.failf("the update function ran %d times on selected document %s; %s", op.UpdCalls[id], id, desc)
								break
							}
						}
						for id, cnt := range op.UpdCalls {
							if !selIds[id] && cnt > 0 {
								f.failf("the update function ran on document %s which the query does not select; %s", id, desc)
								break
							}
						}
						afterAll, _ := db.FindAll(query.NewQuery("c"))
						if len(afterAll) != len(before) {
							f.failf("UpdateFunc changed the number of documents from %d to %d; %s", len(before), len(afterAll), desc)
						}
						bad := 0
						for _, doc := range afterAll {
							old := beforeById[doc.ObjectId()]
							if old == nil {
								bad++
								continue
							}
							wantA := old.Get("a")
							if selIds[doc.ObjectId()] {
								if sc == 0 {
									wantA = old.Get("a").(int64) + 1
								} else {
									wantA = int64(77)
								}
							}
							if doc.Get("a") != wantA || doc.Get("k") != old.Get("k") {
								bad++
							}
						}
						if bad > 0 {
							f.failf("after UpdateFunc %d documents do not hold (pre-call value updated once iff selected); %s", bad, desc)
						}
						auditKeys("after UpdateFunc", len(before), len(idxs), true)
						// every index still serves exactly the collection
						for _, fld := range idxs {
							via, _ := db.FindAll(query.NewQuery("c").Sort(query.SortOption{Field: fld, Direction: 1}))
							if len(via) != len(before) {
								f.failf("after UpdateFunc the index on %s yields %d documents of %d; %s", fld, len(via), len(before), desc)
							}
						}
						distinct[fmt.Sprintf("update/%d/%d/%s", sc, len(idxs), sizeClass(size))] = true
					case 2, 6: // Delete
						r := rec(&Op{Kind: "Delete", Q: qs})
						evals++
						if errKind(r) != "e0" {
							f.failf("Delete failed: %s; %s", Tstr(r), desc)
							break
						}
						afterAll, _ := db.FindAll(query.NewQuery("c"))
						if len(afterAll) != len(before)-len(selected) {
							f.failf("Delete of %d selected documents left %d of %d; %s", len(selected), len(afterAll), len(before), desc)
						}
						for _, doc := range afterAll {
							if selIds[doc.ObjectId()] {
								f.failf("Delete left selected document %s behind; %s", doc.ObjectId(), desc)
								break
							}
						}
						cnt, _ := db.Count(query.NewQuery("c"))
						if cnt != len(afterAll) {
							f.failf("after Delete Count = %d but FindAll returns %d; %s", cnt, len(afterAll), desc)
						}
						auditKeys("after Delete", len(afterAll), len(idxs), true)
						distinct[fmt.Sprintf("delete/%d/%s", len(idxs), sizeClass(size))] = true
					case 3: // DropCollection leaves nothing
						r := rec(&Op{Kind: "DropCollection", Coll: "c"})
						evals++
						if errKind(r) != "e0" {
							f.failf("DropCollection failed: %s; %s", Tstr(r), desc)
						}
						auditKeys("after DropCollection", 0, 0, false)
						rec(&Op{Kind: "CreateCollection", Coll: "c"})
						cnt, _ := db.Count(query.NewQuery("c"))
						all, _ := db.FindAll(query.NewQuery("c"))
						if cnt != 0 || len(all) != 0 {
							f.failf("a collection re-created after DropCollection is not empty (Count %d, FindAll %d); %s", cnt, len(all), desc)
						}
						distinct[fmt.Sprintf("dropcoll/%d/%s", len(idxs), sizeClass(size))] = true
					case 4: // DropIndex leaves no residue, re-creation is exact
						if len(idxs) == 0 {
							break
						}
						fld := idxs[0]
						r := rec(&Op{Kind: "DropIndex", Coll: "c", Field: fld})
						evals++
						if errKind(r) != "e0" {
							f.failf("DropIndex failed: %s; %s", Tstr(r), desc)
						}
						auditKeys("after DropIndex", len(before), len(idxs)-1, true)
						rec(&Op{Kind: "Update", Q: QSpec{Coll: "c", Steps: []QStep{{Kind: "where", C: &Crit{Kind: "cmp", Op: "OEq", Field: "g", Val: Operand{Lit: 1}}}}}, KVs: map[string]interface{}{fld: int64(-5)}})
						rec(&Op{Kind: "CreateIndex", Coll: "c", Field: fld})
						auditKeys("after re-creating the index", len(before), len(idxs), true)
						via, _ := db.FindAll(query.NewQuery("c").Sort(query.SortOption{Field: fld, Direction: 1}))
						if len(via) != len(before) {
							f.failf("a re-created index on %s yields %d documents of %d; %s", fld, len(via), len(before), desc)
						}
						distinct[fmt.Sprintf("dropidx/%d/%s", len(idxs), sizeClass(size))] = true
					case 7: // CreateCollectionByQuery copies exactly the selected documents and leaves the source alone
						r := rec(&Op{Kind: "CreateByQuery", Coll: "cq", Q: qs})
						evals++
						if env.wedged {
							f.failf("CreateCollectionByQuery did not return (handle wedged); %s", desc)
							break
						}
						if errKind(r) != "e0" {
							f.failf("CreateCollectionByQuery failed: %s; %s", Tstr(r), desc)
							break
						}
						copied, _ := db.FindAll(query.NewQuery("cq"))
						if len(copied) != len(selected) {
							f.failf("CreateCollectionByQuery copied %d documents, the query selects %d; %s", len(copied), len(selected), desc)
						}
						for _, doc := range copied {
							old := beforeById[doc.ObjectId()]
							if old == nil || !selIds[doc.ObjectId()] || Tstr(tValue(old.AsMap())) != Tstr(tValue(doc.AsMap())) {
								f.failf("CreateCollectionByQuery produced document %s which is not a selected source document; %s", doc.ObjectId(), desc)
								break
							}
						}
						if cnt, _ := db.Count(query.NewQuery("cq")); cnt != len(copied) {
							f.failf("Count of the copy is %d, FindAll returns %d; %s", cnt, len(copied), desc)
						}
						afterAll, _ := db.FindAll(query.NewQuery("c"))
						if len(afterAll) != len(before) {
							f.failf("CreateCollectionByQuery changed the source from %d to %d documents; %s", len(before), len(afterAll), desc)
						}
						// the handle still works
						r2 := rec(&Op{Kind: "Insert", Coll: "cq", Docs: []map[string]interface{}{scaleDoc(size + 5)}})
						if errKind(r2) != "e0" {
							f.failf("Insert after CreateCollectionByQuery failed: %s; %s", Tstr(r2), desc)
						}
						distinct[fmt.Sprintf("copy/%d/%s", len(idxs), sizeClass(size))] = true
					default: // Delete through a sorted window, then bulk Update with the map form
						r := rec(&Op{Kind: "Update", Q: qs, KVs: map[string]interface{}{"a": int64(4), "z": "new"}})
						evals++
						if errKind(r) != "e0" {
							f.failf("Update failed: %s; %s", Tstr(r), desc)
							break
						}
						afterAll, _ := db.FindAll(query.NewQuery("c"))
						bad := 0
						for _, doc := range afterAll {
							if selIds[doc.ObjectId()] != doc.Has("z") {
								bad++
							}
						}
						if bad > 0 || len(afterAll) != len(before) {
							f.failf("Update touched the wrong documents (%d wrong, %d of %d present); %s", bad, len(afterAll), len(before), desc)
						}
						auditKeys("after Update", len(before), len(idxs), true)
						distinct[fmt.Sprintf("updatemap/%d/%s", len(idxs), sizeClass(size))] = true
					}
					if env.wedged {
						f.failf("an operation did not return within its deadline (scenario %d); %s", sc, desc)
						env.destroy()
						continue
					}
					if via, err := db.FindAll(query.NewQuery("c2").Sort(query.SortOption{Field: "a", Direction: 1})); err != nil || len(via) != 8 {
						f.failf("the sibling collection lost documents or index entries (%d of 8 through its index, err %v); %s", len(via), err, desc)
					}
					if small && len(steps) > 0 {
						hr := &HistResult{Steps: steps, Backend: be}
						cs.Add(hr.caseTerm(), false)
					}
					if len(samples) < 3 && size == 300 && sc == 0 {
						samples = append(samples, map[string]interface{}{"size": size, "indexes": idxs, "backend": be, "selected": len(selected), "query": clip(qs.term(), 200)})
					}
					env.destroy()
				}
			}
		}
	}
	_ = g
	_ = sort.Strings
	files := cs.Write(out, "scale")
	return &RunReport{Stream: "scale", Seed: seed, Evaluations: evals, Distinct: len(distinct),
		Rule:         "one evaluation = one bulk operation (UpdateFunc in place / on a copy rewriting the filtered, sorted and indexed field; Delete; Update; DropCollection; DropIndex + re-creation) on a collection of the given size and index set, checked for: exactly the documents FindAll selected beforehand are affected, the update function runs once per selected document, counters and every index agree with the documents, and the raw key count is 1 + n(1 + #indexes); histories up to 300 documents also go to the model; distinct = distinct (operation, index count, size class)",
		OracleFails:  f.fails, CaseFiles: files, Samples: samples,
		Distribution: map[string]interface{}{"rounds": n, "backends": backendsOf(backendSpec), "sizes": sizesRun}}
}

func sizeClass(n int) string {
	switch {
	case n == 0:
		return "0"
	case n == 1:
		return "1"
	case n <= 100:
		return "<=100"
	case n <= 1024:
		return "<=1024"
	}
	return ">1024"
}

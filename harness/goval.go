package main

// Printing of arbitrary Go values (as reflect sees them) as terms of the model's `goval` type.

import (
	"fmt"
	"math"
	"reflect"
	"sort"
	"strings"
	"time"
)

var timeType = reflect.TypeOf(time.Time{})

func gGoval(x interface{}) string {
	var sb strings.Builder
	printGoval(&sb, reflect.ValueOf(x), false)
	return sb.String()
}

func intBits(k reflect.Kind) int {
	switch k {
	case reflect.Int8, reflect.Uint8:
		return 8
	case reflect.Int16, reflect.Uint16:
		return 16
	case reflect.Int32, reflect.Uint32:
		return 32
	case reflect.Int64, reflect.Uint64:
		return 64
	}
	return 0
}

func printGoval(sb *strings.Builder, v reflect.Value, _ bool) {
	if !v.IsValid() {
		sb.WriteString("GNil")
		return
	}
	if v.Type() == timeType {
		s, n, o := timeParts(v.Interface().(time.Time))
		fmt.Fprintf(sb, "(GTime %s %s %s)", gZ(s), gZ(n), gZ(o))
		return
	}
	switch v.Kind() {
	case reflect.Interface:
		if v.IsNil() {
			sb.WriteString("GNil")
			return
		}
		printGoval(sb, v.Elem(), false)
	case reflect.Int, reflect.Int8, reflect.Int16, reflect.Int32, reflect.Int64:
		fmt.Fprintf(sb, "(GInt %d %s)", intBits(v.Kind()), gZ(v.Int()))
	case reflect.Uint, reflect.Uint8, reflect.Uint16, reflect.Uint32, reflect.Uint64:
		fmt.Fprintf(sb, "(GUint %d %d)", intBits(v.Kind()), v.Uint())
	case reflect.Float32:
		fmt.Fprintf(sb, "(GFloat32 %d)", math.Float64bits(v.Float()))
	case reflect.Float64:
		fmt.Fprintf(sb, "(GFloat64 %d)", math.Float64bits(v.Float()))
	case reflect.String:
		fmt.Fprintf(sb, "(GString %s)", gStr(v.String()))
	case reflect.Bool:
		fmt.Fprintf(sb, "(GBool %s)", gBool(v.Bool()))
	case reflect.Ptr:
		if v.IsNil() {
			sb.WriteString("(GPtr None)")
			return
		}
		sb.WriteString("(GPtr (Some ")
		printGoval(sb, v.Elem(), false)
		sb.WriteString("))")
	case reflect.Slice, reflect.Array:
		isU8 := v.Type().Elem().Kind() == reflect.Uint8
		fmt.Fprintf(sb, "(GSlice %s [", gBool(isU8))
		if !isU8 {
			for i := 0; i < v.Len(); i++ {
				if i > 0 {
					sb.WriteString(";")
				}
				printGoval(sb, v.Index(i), false)
			}
		}
		sb.WriteString("])")
	case reflect.Map:
		strKeys := v.Type().Key().Kind() == reflect.String
		fmt.Fprintf(sb, "(GMap %s [", gBool(strKeys))
		if strKeys {
			keys := v.MapKeys()
			sort.Slice(keys, func(i, j int) bool { return keys[i].String() < keys[j].String() })
			for i, k := range keys {
				if i > 0 {
					sb.WriteString(";")
				}
				fmt.Fprintf(sb, "(%s,", gStr(k.String()))
				printGoval(sb, v.MapIndex(k), false)
				sb.WriteString(")")
			}
		}
		sb.WriteString("])")
	case reflect.Struct:
		sb.WriteString("(GStruct [")
		t := v.Type()
		for i := 0; i < t.NumField(); i++ {
			if i > 0 {
				sb.WriteString(";")
			}
			f := t.Field(i)
			exported := f.PkgPath == ""
			fmt.Fprintf(sb, "(GField %s %s %s %s %s ", gStr(f.Name), gBool(exported), gStr(f.Tag.Get("clover")),
				gBool(f.Anonymous), gBool(f.Type.Kind() == reflect.Interface))
			if exported {
				printGoval(sb, v.Field(i), false)
			} else {
				sb.WriteString("GNil")
			}
			sb.WriteString(")")
		}
		sb.WriteString("])")
	default:
		sb.WriteString("GUnsupported")
	}
}

// a canonical value wrapped as a goval
func gCanon(v interface{}) string { return "(GCanon " + gValue(v) + ")" }

// obj term (the list inside VObj) of a canonical map
func gObj(m map[string]interface{}) string {
	var sb strings.Builder
	sb.WriteString("[")
	for i, k := range sortedKeys(m) {
		if i > 0 {
			sb.WriteString(";")
		}
		fmt.Fprintf(&sb, "(%s,", gStr(k))
		printValue(&sb, m[k])
		sb.WriteString(")")
	}
	sb.WriteString("]")
	return sb.String()
}

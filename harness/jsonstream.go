package main

// C19: export then import reproduces a collection (JSON typing), export is pure, failed imports leave
// existing collections alone.

import (
	"encoding/json"
	"fmt"
	"os"
	"path/filepath"
	"sort"
	"time"

	clover "github.com/ostafen/clover/v2"
	d "github.com/ostafen/clover/v2/document"
	"github.com/ostafen/clover/v2/query"
)

// retype a parsed JSON value after the stored value it came from, when the JSON typing relation holds:
// numbers numerically equal, times as their RFC 3339 text
func retype(parsed interface{}, guide interface{}) interface{} {
	switch gv := guide.(type) {
	case int64:
		if p, ok := parsed.(float64); ok && p == float64(gv) {
			return gv
		}
	case uint64:
		if p, ok := parsed.(float64); ok && p == float64(gv) {
			return gv
		}
	case time.Time:
		if p, ok := parsed.(string); ok {
			if t, err := time.Parse(time.RFC3339Nano, p); err == nil && t.Equal(gv) {
				return gv
			}
		}
	case []interface{}:
		if p, ok := parsed.([]interface{}); ok && len(p) == len(gv) {
			out := make([]interface{}, len(p))
			for i := range p {
				out[i] = retype(p[i], gv[i])
			}
			return out
		}
	case map[string]interface{}:
		if p, ok := parsed.(map[string]interface{}); ok {
			out := map[string]interface{}{}
			for k, e := range p {
				out[k] = retype(e, gv[k])
			}
			return out
		}
	}
	return parsed
}

// JSON typing relation between a stored value and the value re-imported from its export
func jsonRelated(orig, imp interface{}) bool {
	switch o := orig.(type) {
	case nil:
		return imp == nil
	case int64, uint64, float64:
		_, isNum := imp.(float64)
		return isNum && clover.VerifCompare(orig, imp) == 0
	case time.Time:
		s, ok := imp.(string)
		if !ok {
			return false
		}
		t, err := time.Parse(time.RFC3339Nano, s)
		return err == nil && t.Equal(o)
	case []interface{}:
		p, ok := imp.([]interface{})
		if !ok || len(p) != len(o) {
			return false
		}
		for i := range o {
			if !jsonRelated(o[i], p[i]) {
				return false
			}
		}
		return true
	case map[string]interface{}:
		p, ok := imp.(map[string]interface{})
		if !ok || len(p) != len(o) {
			return false
		}
		for k, e := range o {
			pe, has := p[k]
			if !has || !jsonRelated(e, pe) {
				return false
			}
		}
		return true
	}
	return Tstr(tValue(orig)) == Tstr(tValue(imp))
}

func runJSONStream(seed int64, n int, out, backendSpec string) *RunReport {
	f := &failer{}
	cs := &CaseSet{}
	evals := 0
	distinct := map[string]bool{}
	known := map[string]bool{}
	var samples []interface{}
	for round := 0; round < n; round++ {
		for _, be := range backendsOf(backendSpec) {
			g := NewGen(histSeed(seed, round) + 41)
			h := NewHistGen(g, HistCfg{Colls: 1, JSONSafe: true})
			env, err := newEnv(be)
			if err != nil {
				f.failf("open: %v", err)
				continue
			}
			db := env.db
			var steps []StepRec
			rec := func(op *Op) T {
				r := op.exec(env)
				dump, _ := dumpStore(env.st.inner)
				steps = append(steps, StepRec{Op: op, Res: r, Dump: dump})
				return r
			}
			rec(&Op{Kind: "CreateCollection", Coll: "src"})
			rec(&Op{Kind: "CreateCollection", Coll: "other"})
			withIdx := g.Bool()
			if withIdx {
				rec(&Op{Kind: "CreateIndex", Coll: "src", Field: "a"})
			}
			ndocs := g.Intn(9)
			if round%4 == 0 {
				ndocs = 0 // the empty collection, always among the rounds
			}
			docs := make([]map[string]interface{}, ndocs)
			for i := range docs {
				docs[i] = keyDomSanitize(h.doc(fmt.Sprintf("%08x-0000-4000-8000-%012x", i, g.Intn(1<<30)))).(map[string]interface{})
			}
			for i := range docs {
				if i == 0 && round%2 == 1 {
					docs[i]["tiny"] = []interface{}{float64(1e-7), float64(-2e-12), map[string]interface{}{"q": float64(5e-9)}}
				}
				// top-level field names that contain a dot are ordinary names for export/import
				if g.Chance(0.4) {
					docs[i]["p.q"] = int64(i)
				}
				if g.Chance(0.2) {
					docs[i]["n.a"] = "literal"
				}
				if g.Chance(0.2) {
					docs[i]["e"] = pickOf(g, []interface{}{[]interface{}{}, map[string]interface{}{}, []interface{}{[]interface{}{}}})
				}
			}
			if ndocs > 0 {
				rec(&Op{Kind: "Insert", Coll: "src", Docs: cloneDocs(docs)})
				rec(&Op{Kind: "Insert", Coll: "other", Docs: cloneDocs(docs[:1])})
			}
			before, _ := dumpStore(env.st.inner)
			path := filepath.Join(env.tmpdir, "exp.json")
			// export through the op alphabet (also compared with the model) ...
			rexp := rec(&Op{Kind: "Export", Coll: "src"})
			evals++
			if errKind(rexp) != "e0" {
				f.failf("ExportCollection failed on a JSON-representable collection: %s", Tstr(rexp))
				env.destroy()
				continue
			}
			after, _ := dumpStore(env.st.inner)
			if Tstr(before) != Tstr(after) {
				f.failf("ExportCollection modified the store (%s)", be)
			}
			// ... and directly, to re-import the very file
			if err := db.ExportCollection("src", path); err != nil {
				f.failf("ExportCollection: %v", err)
			}
			raw, _ := os.ReadFile(path)
			var parsed []map[string]interface{}
			if err := json.Unmarshal(raw, &parsed); err != nil {
				f.failf("exported file is not a JSON array of objects: %v", err)
				env.destroy()
				continue
			}
			if len(parsed) != ndocs {
				f.failf("exported %d documents of %d", len(parsed), ndocs)
			}
			// import under a new name, through the op alphabet so that the model sees it too
			elems := make([]map[string]interface{}, len(parsed))
			for i, m := range parsed {
				elems[i] = jsonCanon(m).(map[string]interface{})
			}
			rimp := rec(&Op{Kind: "Import", Coll: "copy", File: &ImportFile{Kind: "elems", Text: string(raw), Elems: elems}})
			evals++
			if errKind(rimp) != "e0" {
				f.failf("ImportCollection of an exported file failed: %s (file %s)", Tstr(rimp), clip(string(raw), 400))
			} else {
				src, _ := db.FindAll(query.NewQuery("src"))
				cp, _ := db.FindAll(query.NewQuery("copy"))
				if len(src) != len(cp) {
					f.failf("import reproduced %d of %d documents", len(cp), len(src))
				}
				byId := map[string]*d.Document{}
				for _, doc := range cp {
					byId[doc.ObjectId()] = doc
				}
				for _, doc := range src {
					c2 := byId[doc.ObjectId()]
					if c2 == nil {
						f.failf("document %s missing from the imported collection", doc.ObjectId())
						continue
					}
					if !jsonRelated(doc.AsMap(), c2.AsMap()) {
						f.failf("imported document differs beyond JSON typing: stored %s imported %s", gValue(doc.AsMap()), gValue(c2.AsMap()))
					}
				}
				n1, _ := db.Count(query.NewQuery("copy"))
				if n1 != len(src) {
					f.failf("Count of the imported collection is %d, source has %d", n1, len(src))
				}
				distinct[fmt.Sprintf("roundtrip/%s/idx%v/n%d", be, withIdx, min3(ndocs))] = true
			}
			// a second export to the same path replaces the file (a shorter export after a longer one leaves no tail), and a
			// new name that is a proper prefix of an existing collection's name is a new name
			if err := db.ExportCollection("other", path); err != nil {
				f.failf("ExportCollection to an existing path failed: %v", err)
			} else {
				raw2, _ := os.ReadFile(path)
				var parsed2 []map[string]interface{}
				if err := json.Unmarshal(raw2, &parsed2); err != nil {
					f.failf("a file exported over a longer one is not valid JSON: %v (%s)", err, clip(string(raw2), 200))
				} else if no, _ := db.Count(query.NewQuery("other")); len(parsed2) != no {
					f.failf("a file exported over a longer one holds %d documents, the collection %d", len(parsed2), no)
				}
				if err := db.ImportCollection("sr", path); err != nil {
					f.failf("ImportCollection under \"sr\" (a proper prefix of the existing name \"src\") failed: %v", err)
				} else if n2, _ := db.Count(query.NewQuery("sr")); n2 != len(parsed2) {
					f.failf("ImportCollection under \"sr\" stored %d of %d documents", n2, len(parsed2))
				}
				db.DropCollection("sr")
				evals += 2
			}
			// failure paths leave every existing collection alone
			snap := func() string {
				var parts []string
				for _, c := range []string{"src", "other", "copy"} {
					all, _ := db.FindAll(query.NewQuery(c))
					idx, _ := db.ListIndexes(c)
					parts = append(parts, c+":"+Tstr(docsById(all))+fmt.Sprint(idx))
				}
				sort.Strings(parts)
				return fmt.Sprint(parts)
			}
			s0 := snap()
			for _, bad := range []*Op{
				{Kind: "Import", Coll: "src", File: &ImportFile{Kind: "elems", Text: string(raw), Elems: elems}},
				{Kind: "Import", Coll: "nofile", File: &ImportFile{Kind: "unreadable"}},
				{Kind: "Import", Coll: "badfile", File: &ImportFile{Kind: "illformed", Text: "[{\"a\": 1"}},
				{Kind: "Import", Coll: "badfile2", File: &ImportFile{Kind: "illformed", Text: "{\"a\": 1}"}},
				{Kind: "Import", Coll: "badfile3", File: &ImportFile{Kind: "illformed", Text: "[{\"_id\":\"" + idPool[4] + "\"}"}},
				{Kind: "Import", Coll: "badfile4", File: &ImportFile{Kind: "illformed", Text: "["}},
				{Kind: "Import", Coll: "badfile5", File: &ImportFile{Kind: "illformed", Text: "[{\"_id\":\"" + idPool[4] + "\"}}"}},
				{Kind: "Import", Coll: "nullelem", File: &ImportFile{Kind: "elems", Text: "[null]", Elems: []map[string]interface{}{nil}}},
				{Kind: "Import", Coll: "nullelem2", File: &ImportFile{Kind: "elems", Text: "[{\"_id\":\"" + idPool[2] + "\"}, null]", Elems: []map[string]interface{}{{"_id": idPool[2]}, nil}}},
				{Kind: "Export", Coll: "missing"},
			} {
				r := rec(bad)
				evals++
				if errKind(r) == "e0" {
					f.failf("%s %s unexpectedly succeeded", bad.Kind, bad.Coll)
				}
				if snap() != s0 {
					f.failf("failed %s into %q altered an existing collection (%s)", bad.Kind, bad.Coll, be)
				}
				distinct[fmt.Sprintf("fail/%s/%s", bad.Coll, errKind(r))] = true
			}
			// known finding K-expires: a document with _expiresAt does not re-import
			if round == 0 {
				db.CreateCollection("ttl")
				doc := d.NewDocumentOf(map[string]interface{}{"_id": idPool[0], "a": int64(1)})
				doc.SetExpiresAt(time.Unix(4102444800, 0).UTC())
				db.Insert("ttl", doc)
				p2 := filepath.Join(env.tmpdir, "ttl.json")
				if err := db.ExportCollection("ttl", p2); err == nil {
					if err := db.ImportCollection("ttl-copy", p2); err != nil {
						known["K-expires: a document with _expiresAt exports its time as RFC 3339 text, which ImportCollection rejects ("+err.Error()+")"] = true
					}
				}
			}
			if len(samples) < 2 && ndocs > 0 {
				samples = append(samples, map[string]interface{}{"backend": be, "documents": ndocs, "indexed": withIdx, "file": clip(string(raw), 300)})
			}
			hr := &HistResult{Steps: steps, Backend: be}
			cs.Add(hr.caseTerm(), false)
			env.destroy()
		}
	}
	files := cs.Write(out, "json")
	return &RunReport{Stream: "json", Seed: seed, Evaluations: evals, Distinct: len(distinct),
		Rule:         "one evaluation = one ExportCollection / ImportCollection call; round trips are checked for ids, field sets and values equal after JSON typing, export for purity, failed imports (existing name, unreadable, ill-formed) for leaving all existing collections unchanged; the whole history also goes to the model; distinct = distinct (outcome, backend, index, size class)",
		OracleFails:  f.fails, CaseFiles: files, Samples: samples, Known: keysOf(known),
		Distribution: map[string]interface{}{"rounds": n, "backends": backendsOf(backendSpec)}}
}

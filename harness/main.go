package main

import (
	"runtime"
	"encoding/json"
	"flag"
	"fmt"
	"os"
	"path/filepath"
	"time"
)

func asTime(v interface{}) (time.Time, bool) {
	t, ok := v.(time.Time)
	return t, ok
}

type RunReport struct {
	Stream       string                 `json:"stream"`
	Seed         int64                  `json:"seed"`
	Evaluations  int                    `json:"evaluations"`
	Distinct     int                    `json:"distinct_nontrivial"`
	Rule         string                 `json:"rule"`
	Samples      []interface{}          `json:"samples"`
	OracleFails  []string               `json:"oracle_fails"`
	Known        []string               `json:"known"`
	CaseFiles    []string               `json:"case_files"`
	Distribution map[string]interface{} `json:"distribution"`
	Exhaustive   bool                   `json:"exhaustive"`
	WallS        float64                `json:"wall_s"`
}

var gSuffix, gBackend, gFocus string

func writeFile(path, content string) {
	if err := os.MkdirAll(filepath.Dir(path), 0o755); err != nil {
		panic(err)
	}
	if err := os.WriteFile(path, []byte(content), 0o644); err != nil {
		panic(err)
	}
}

func writeJSON(path string, v interface{}) {
	b, err := json.MarshalIndent(v, "", " ")
	if err != nil {
		panic(err)
	}
	writeFile(path, string(b))
}

func main() {
	if len(os.Args) < 2 {
		fmt.Fprintln(os.Stderr, "usage: vh <stream> [flags]")
		os.Exit(2)
	}
	stream := os.Args[1]
	fs := flag.NewFlagSet(stream, flag.ExitOnError)
	seed := fs.Int64("seed", 1, "PRNG seed")
	n := fs.Int("n", 100, "number of cases / extra values")
	out := fs.String("out", "work", "output directory")
	backend := fs.String("backend", "bbolt", "bbolt|badger|badgerdisk")
	replay := fs.String("replay", "", "replay file")
	prop := fs.String("prop", "", "property id the run serves")
	tier := fs.String("tier", "quick", "quick|thorough")
	caseIdx := fs.Int("case", 0, "case index (shrink)")
	oraclePath := fs.String("oracle", "", "path of the extracted-model oracle")
	streamName := fs.String("stream", "", "stream name (shrink)")
	file := fs.String("file", "", "replay file")
	focus := fs.String("focus", "", "generator focus")
	suffix := fs.String("suffix", "", "suffix of the report/cases file names")
	fs.Parse(os.Args[2:])
	gSuffix = *suffix
	gBackend = *backend
	gFocus = *focus
	_ = replay
	_ = prop
	_ = tier
	_ = file
	// watchdog: a stream that stops making progress (an operation blocked somewhere without a deadline of its own)
	// ends with exit status 3 and a goroutine dump instead of hanging the check
	budget := 10 * time.Minute
	if *tier == "thorough" {
		budget = 5 * time.Hour
	}
	go func() {
		time.Sleep(budget)
		fmt.Fprintf(os.Stderr, "WATCHDOG: stream %s did not finish within %s; goroutines:\n", stream, budget)
		buf := make([]byte, 1<<20)
		os.Stderr.Write(buf[:runtime.Stack(buf, true)])
		cleanupTemps()
		os.Exit(3)
	}()
	start := time.Now()
	var rep *RunReport
	switch stream {
	case "c10":
		r := runC10(*seed, *n)
		cs := &CaseSet{}
		all := make([]int, len(r.pool))
		for i := range all {
			all[i] = i
		}
		cs.All = append(cs.All, r.caseTerm(all))
		// in-Coq sample: every 5th pool value (still covers every kind of value)
		var sub []int
		for i := int(*seed % 5); i < len(r.pool); i += 5 {
			sub = append(sub, i)
		}
		cs.Sample = append(cs.Sample, r.caseTerm(sub))
		files := cs.Write(*out, "c10")
		rep = &RunReport{Stream: "c10", Seed: *seed, Evaluations: r.pairs + r.triples, Distinct: r.pairs,
			Rule:        "all ordered pairs (and all ordered triples in the compare domain) of a boundary-rich value pool plus seeded random nested values; every pair is a distinct case; non-trivial = the two values differ in position",
			OracleFails: r.oracleFails, CaseFiles: files, Exhaustive: true,
			Distribution: map[string]interface{}{"pool_size": len(r.pool), "pairs": r.pairs, "triples_in_domain": r.triples}}
		for i := 0; i < 3 && i < len(r.pool); i++ {
			j := (i*37 + 11) % len(r.pool)
			rep.Samples = append(rep.Samples, map[string]interface{}{"a": gValue(r.pool[j]), "b": gValue(r.pool[(j+5)%len(r.pool)]), "impl_sign": r.signs[j][(j+5)%len(r.pool)]})
		}
	case "c11":
		rep = runC11(*seed, *n, *out, *backend)
	case "c16":
		rep = runC16(*seed, *n, *out)
	case "c18":
		rep = runC18(*seed, *n, *out)
	case "crash":
		rep = runCrashStream(*seed, *n, *out, *tier)
	case "crashchild":
		crashChildMain(*out, *backend)
		return
	case "idx":
		rep = runIdxStream(*seed, *n, *out, *backend)
	case "cursor":
		rep = runCursorStream(*seed, *n, *out)
	case "twin":
		rep = runTwinStream(*seed, *n, *out, *backend)
	case "scale":
		rep = runScaleStream(*seed, *n, *out, *backend, *tier)
	case "conc":
		rep = runConcStream(*seed, *n, *out, *backend)
	case "json":
		rep = runJSONStream(*seed, *n, *out, *backend)
	case "fault":
		rep = runFaultStream(*seed, *n, *out, *backend, *tier)
	case "hist":
		rep = runHistStream(*seed, *n, *out, *backend, *focus, *tier)
		stream = "hist" + *suffix
	case "shrink":
		shrinkCase(*streamName, *seed, *n, *caseIdx, *out, *oraclePath, *prop, *tier)
		return
	case "replay":
		os.Exit(replayFile(*file, *oraclePath))
	default:
		fmt.Fprintln(os.Stderr, "unknown stream", stream)
		os.Exit(2)
	}
	cleanupTemps()
	rep.WallS = time.Since(start).Seconds()
	writeJSON(filepath.Join(*out, "report_"+stream+".json"), rep)
}

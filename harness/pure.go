package main

// Streams on the pure / per-document layers: C11 (round-trip), C16 (criteria algebra), C18 (normalisation).

import (
	"math/big"
	"os"
	"math"
	"fmt"
	"reflect"
	"sort"
	"strings"
	"sync"
	"time"

	clover "github.com/ostafen/clover/v2"
	d "github.com/ostafen/clover/v2/document"
	"github.com/ostafen/clover/v2/query"
)

type failer struct {
	mu    sync.Mutex
	fails []string
}

func (f *failer) failf(format string, a ...interface{}) {
	f.mu.Lock()
	defer f.mu.Unlock()
	if len(f.fails) < 20 {
		f.fails = append(f.fails, clip(fmt.Sprintf(format, a...), 1500))
	}
}

// ---------------------------------------------------------------- C11

func deepDoc(g *Gen, id string) map[string]interface{} {
	m := map[string]interface{}{}
	t1 := pickOf(g, poolTimes()).(time.Time)
	m["a"] = g.Value(4)
	m["arr"] = []interface{}{t1, map[string]interface{}{"t": pickOf(g, poolTimes()), "deep": []interface{}{pickOf(g, poolTimes()), g.Value(2)}}, g.Value(3)}
	m["obj"] = map[string]interface{}{"x": g.Value(3), "when": pickOf(g, poolTimes()), "e": map[string]interface{}{}, "ea": []interface{}{}}
	m["i"] = pickOf(g, poolInts())
	m["u"] = pickOf(g, poolUints())
	m["f"] = pickOf(g, poolFloats())
	m["s"] = pickOf(g, poolStrings())
	if g.Bool() {
		m["n"] = nil
	}
	if id != "" {
		m["_id"] = id
	}
	return m
}

// cmpTwin maps a canonical value to one that internal.Compare ranks equal but that has other Go types:
// integers and integral floats swap kinds, times move to another zone; _id is kept
func cmpTwin(v interface{}) interface{} {
	const lim = 1 << 53
	switch x := v.(type) {
	case int64:
		if x > -lim && x < lim {
			return float64(x)
		}
		if x >= 0 {
			return uint64(x)
		}
	case uint64:
		if x < lim {
			return float64(x)
		}
		if x <= math.MaxInt64 {
			return int64(x)
		}
	case float64:
		if x == math.Trunc(x) && x > -lim && x < lim {
			if x >= 0 && int64(x)%2 == 0 {
				return uint64(x)
			}
			return int64(x)
		}
	case time.Time:
		if _, off := x.Zone(); off != 3600 {
			return x.In(time.FixedZone("", 3600))
		}
		return x.UTC()
	case []interface{}:
		out := make([]interface{}, len(x))
		for i := range x {
			out[i] = cmpTwin(x[i])
		}
		return out
	case map[string]interface{}:
		out := map[string]interface{}{}
		for k, e := range x {
			if k == "_id" {
				out[k] = e
			} else {
				out[k] = cmpTwin(e)
			}
		}
		return out
	}
	return v
}

// leaf paths of a canonical map as Document.Fields(true) reports them: nested maps contribute dotted paths
// (an empty nested map therefore contributes nothing, as in util.MapKeys and the model's leaf_paths)
func leafPaths(m map[string]interface{}, prefix string, out *[]string) {
	for k, v := range m {
		if sub, isMap := v.(map[string]interface{}); isMap {
			leafPaths(sub, prefix+k+".", out)
		} else {
			*out = append(*out, prefix+k)
		}
	}
}

func docViewsAgree(doc *d.Document, want map[string]interface{}) string {
	top := sortedKeys(want)
	if got := doc.Fields(false); strings.Join(got, "\x00") != strings.Join(top, "\x00") {
		return fmt.Sprintf("Fields(false) = %q, the document has the top-level fields %q", got, top)
	}
	var leaves []string
	leafPaths(want, "", &leaves)
	sort.Strings(leaves)
	if got := doc.Fields(true); strings.Join(got, "\x00") != strings.Join(leaves, "\x00") {
		return fmt.Sprintf("Fields(true) = %q, the document has the leaf paths %q", got, leaves)
	}
	if Tstr(tValue(doc.ToMap())) != Tstr(tValue(want)) {
		return "ToMap() differs from the stored document"
	}
	cp := doc.Copy()
	cp.Set("zz-copy-probe", int64(1))
	if doc.Has("zz-copy-probe") {
		return "Set on a Copy() changed the original document"
	}
	if Tstr(tValue(doc.AsMap())) != Tstr(tValue(want)) {
		return "AsMap() changed after Copy()/ToMap()"
	}
	return ""
}

// clover.Open(dir), the entry point most callers use (every other stream goes through OpenWithStore and the recording
// wrapper): what was written is there after Close and a second Open
func plainOpenScenario(f *failer, evals *int) {
	dir, err := os.MkdirTemp(scratchRoot(), "vh-open-")
	if err != nil {
		return
	}
	defer os.RemoveAll(dir)
	db, err := clover.Open(dir)
	if err != nil {
		f.failf("clover.Open on a fresh directory failed: %v", err)
		return
	}
	db.CreateCollection("c")
	db.CreateIndex("c", "a")
	want := map[string]string{}
	for i := 0; i < 5; i++ {
		m := map[string]interface{}{"_id": fmt.Sprintf("%08x-2222-4222-8222-%012x", i, i), "a": int64(i % 3), "t": time.Unix(1700000000+int64(i), 5).In(zoneP2), "n": map[string]interface{}{"k": []interface{}{uint64(i), "s", nil}}}
		if err := db.Insert("c", d.NewDocumentOf(copyCanon(m))); err != nil {
			f.failf("Insert through clover.Open failed: %v", err)
		}
		want[m["_id"].(string)] = Tstr(tValue(m))
	}
	if err := db.Close(); err != nil {
		f.failf("Close failed: %v", err)
	}
	db, err = clover.Open(dir)
	if err != nil {
		f.failf("clover.Open on an existing database failed: %v", err)
		return
	}
	defer db.Close()
	*evals++
	docs, err := db.FindAll(query.NewQuery("c").Sort(query.SortOption{Field: "a", Direction: -1}))
	if err != nil || len(docs) != len(want) {
		f.failf("after Close and clover.Open, FindAll through the index returns %d of %d documents (err %v)", len(docs), len(want), err)
	}
	for _, doc := range docs {
		if want[doc.ObjectId()] != Tstr(tDoc(doc)) {
			f.failf("after Close and clover.Open, document %s differs: %s", doc.ObjectId(), gValue(doc.AsMap()))
		}
	}
	if n, _ := db.Count(query.NewQuery("c")); n != len(want) {
		f.failf("after Close and clover.Open, Count = %d, expected %d", n, len(want))
	}
	if has, _ := db.HasIndex("c", "a"); !has {
		f.failf("after Close and clover.Open, the index on a is gone")
	}
}

func runC11(seed int64, n int, out, backendSpec string) *RunReport {
	known := map[string]bool{}
	f := &failer{}
	cs := &CaseSet{}
	evals := 0
	kinds := map[string]int{}
	var samples []interface{}
	for _, be := range backendsOf(backendSpec) {
		if be == "badger" {
			be = "badgerdisk"
		}
		g := NewGen(seed*31 + 7)
		env, err := newEnv(be)
		if err != nil {
			f.failf("open %s: %v", be, err)
			continue
		}
		var steps []StepRec
		rec := func(op *Op) T {
			r := op.exec(env)
			dump, _ := dumpStore(env.st.inner)
			steps = append(steps, StepRec{Op: op, Res: r, Dump: dump})
			return r
		}
		rec(&Op{Kind: "CreateCollection", Coll: "c"})
		inserted := map[string]map[string]interface{}{}
		var order []string
		for i := 0; i < n; i++ {
			id := fmt.Sprintf("%08x-0000-4000-8000-%012x", i, g.Intn(1<<30))
			m := deepDoc(g, id)
			countKinds(m, kinds)
			var op *Op
			switch g.Intn(3) {
			case 0:
				op = &Op{Kind: "Insert", Coll: "c", Docs: []map[string]interface{}{m}}
			case 1:
				rec(&Op{Kind: "Insert", Coll: "c", Docs: []map[string]interface{}{{"_id": id}}})
				op = &Op{Kind: "Save", Coll: "c", Docs: []map[string]interface{}{m}}
			default:
				// insert a stub, then replace it through an update
				stub := map[string]interface{}{"_id": id}
				rec(&Op{Kind: "Insert", Coll: "c", Docs: []map[string]interface{}{stub}})
				op = &Op{Kind: "ReplaceById", Coll: "c", Id: id, Docs: []map[string]interface{}{m}}
			}
			r := rec(op)
			if errKind(r) != "e0" {
				f.failf("%s of a valid document failed on %s: %s", op.Kind, be, Tstr(r))
				continue
			}
			inserted[id] = m
			order = append(order, id)
		}
		check := func(phase string) {
			for _, id := range order {
				doc, err := env.db.FindById("c", id)
				evals++
				if err != nil || doc == nil {
					f.failf("FindById(%s) %s on %s: err=%v doc=%v", id, phase, be, err, doc)
					continue
				}
				want := Tstr(tValue(inserted[id]))
				got := Tstr(tDoc(doc))
				if want != got {
					f.failf("document read back differs (%s, %s): stored %s read %s", phase, be, gValue(inserted[id]), gValue(doc.AsMap()))
				}
				// the other views of a document agree with it: Fields (top-level names, leaf paths), ToMap, Copy
				if msg := docViewsAgree(doc, inserted[id]); msg != "" {
					f.failf("%s (%s, %s): document %s", msg, phase, be, clip(gValue(inserted[id]), 400))
				}
			}
			docs, err := env.db.FindAll(query.NewQuery("c"))
			if err != nil || len(docs) != len(order) {
				f.failf("FindAll %s on %s: err=%v n=%d want %d", phase, be, err, len(docs), len(order))
			}
			for _, doc := range docs {
				evals++
				if Tstr(tValue(inserted[doc.ObjectId()])) != Tstr(tDoc(doc)) {
					f.failf("FindAll document differs (%s, %s): read %s", phase, be, gValue(doc.AsMap()))
				}
			}
		}
		// documents holding a single time and nothing else (the encoder's choice of msgpack ext format depends
		// on the payload length: zones with a seconds part are longer)
		for ti, tv := range poolTimes() {
			for variant := 0; variant < 5; variant++ {
				id := fmt.Sprintf("%08x-7777-4000-8000-%012x", ti, variant)
				var m map[string]interface{}
				switch variant {
				case 0:
					m = map[string]interface{}{"_id": id, "t": tv}
				case 1:
					m = map[string]interface{}{"_id": id, "l": []interface{}{[]interface{}{tv}}}
				case 2: // the only time sits behind a non-time first element
					m = map[string]interface{}{"_id": id, "l": []interface{}{"created", tv}}
				case 3:
					m = map[string]interface{}{"_id": id, "l": []interface{}{map[string]interface{}{"note": int64(1)}, map[string]interface{}{"at": tv}}, "e": []interface{}{}}
				default:
					m = map[string]interface{}{"_id": id, "o": map[string]interface{}{"z": []interface{}{nil, []interface{}{}, tv}}}
				}
				if r := rec(&Op{Kind: "Insert", Coll: "c", Docs: []map[string]interface{}{m}}); errKind(r) == "e0" {
					inserted[id] = m
					order = append(order, id)
				}
			}
		}
		// known finding K-negoffset: a zone offset that is negative and has a seconds part does not survive Go's
		// time.MarshalBinary/UnmarshalBinary, which internal/time.go relies on (through gob)
		{
			tv := time.Unix(1700000000, 5).In(time.FixedZone("", -30))
			doc := d.NewDocumentOf(map[string]interface{}{"_id": idPool[3], "t": tv})
			if err := env.db.Insert("c", doc); err == nil {
				if got, err := env.db.FindById("c", idPool[3]); err == nil && got != nil {
					if rt, isTime := got.Get("t").(time.Time); isTime {
						if _, off := rt.Zone(); off != -30 {
							known[fmt.Sprintf("K-negoffset: a time with zone offset -30s is read back with offset %+ds (same instant: %v)", off, rt.Equal(tv))] = true
						}
					}
				}
				env.db.DeleteById("c", idPool[3])
			}
		}
		// names that are prefixes of one another up to a character sorting before '.', for the sorted views of Fields
		{
			id := fmt.Sprintf("%08x-6666-4000-8000-%012x", 1, 1)
			m := map[string]interface{}{"_id": id, "addr": map[string]interface{}{"city": "x", "zip": int64(1)}, "addr-notes": "n", "addr+": int64(1), "addr0": map[string]interface{}{"k": nil}}
			if r := rec(&Op{Kind: "Insert", Coll: "c", Docs: []map[string]interface{}{m}}); errKind(r) == "e0" {
				inserted[id] = m
				order = append(order, id)
			}
		}
		// sorting on a field whose values are arrays holding times and objects with times compares them pairwise
		func() {
			defer func() {
				if r := recover(); r != nil {
					f.failf("FindAll sorted on an array-valued field panicked on %s: %v", be, r)
				}
			}()
			for _, fld := range []string{"arr", "obj", "l", "o"} {
				docs, err := env.db.FindAll(query.NewQuery("c").Sort(query.SortOption{Field: fld, Direction: -1}))
				evals++
				if err != nil || len(docs) != len(order) {
					f.failf("FindAll sorted on %q returns %d of %d documents on %s (err %v)", fld, len(docs), len(order), be, err)
				}
			}
		}()
		check("before reopen")
		// rewrite some documents with values that COMPARE equal to the stored ones but have another Go type or zone
		// (5 -> 5.0 -> uint64(5), the same instant in another zone): what is read back is what was written last
		rewritten := 0
		for i, id := range order {
			if i%3 != 0 {
				continue
			}
			tw := cmpTwin(inserted[id]).(map[string]interface{})
			if Tstr(tValue(tw)) == Tstr(tValue(inserted[id])) {
				continue
			}
			var op *Op
			switch (i / 3) % 4 {
			case 0:
				op = &Op{Kind: "ReplaceById", Coll: "c", Id: id, Docs: []map[string]interface{}{tw}}
			case 1:
				op = &Op{Kind: "Save", Coll: "c", Docs: []map[string]interface{}{tw}}
			case 2:
				op = &Op{Kind: "UpdateById", Coll: "c", Id: id, U: Updater{Kind: "funconst", Doc: tw}}
			default:
				op = &Op{Kind: "UpdateFunc", Q: QSpec{Coll: "c", Steps: []QStep{{Kind: "where", C: &Crit{Kind: "cmp", Op: "OEq", Field: "_id", Val: Operand{Lit: id}}}}}, U: Updater{Kind: "funconst", Doc: tw}}
			}
			if r := rec(op); errKind(r) != "e0" {
				f.failf("%s with a compare-equal document failed on %s: %s", op.Kind, be, Tstr(r))
				continue
			}
			inserted[id] = tw
			rewritten++
		}
		check("after compare-equal rewrites")
		rec(&Op{Kind: "Reopen"})
		check("after reopen")
		if len(samples) < 2 && len(order) > 0 {
			samples = append(samples, map[string]string{"backend": be, "document": clip(gValue(inserted[order[0]]), 400)})
		}
		// direct Encode/Decode round trip as well
		for _, id := range order {
			doc := d.NewDocumentOf(copyCanon(inserted[id]))
			b, err := d.Encode(doc)
			if err != nil {
				f.failf("Encode: %v", err)
				continue
			}
			back, err := d.Decode(b)
			evals++
			if err != nil || Tstr(tDoc(back)) != Tstr(tDoc(doc)) {
				f.failf("Decode(Encode(d)) differs for %s", gValue(inserted[id]))
			}
		}
		hr := &HistResult{Steps: steps, Backend: be}
		cs.Add(hr.caseTerm(), be == "bbolt" && len(steps) < 40)
		// byte level: what the store really holds under each document key, against the msgpack/gob model
		mpExisting(env, be, "c", order, inserted, cs, f, &evals, kinds)
		env.destroy()
		mpBoundary(be, cs, f, &evals, kinds)
	}
	plainOpenScenario(f, &evals)
	files := cs.Write(out, "c11")
	return &RunReport{Stream: "c11", Seed: seed, Evaluations: evals, Distinct: len(kinds) * 3,
		Rule:         "one evaluation = one document read back (FindById / FindAll before and after close+reopen, and Decode(Encode)) compared type-for-type with what was stored; the whole write history also goes to the model",
		OracleFails:  f.fails, CaseFiles: files, Samples: samples, Known: keysOf(known),
		Distribution: map[string]interface{}{"documents_per_backend": n, "value_kinds": kinds, "backends": backendsOf(backendSpec)}}
}

func countKinds(v interface{}, m map[string]int) {
	switch x := v.(type) {
	case map[string]interface{}:
		m["map"]++
		for _, e := range x {
			countKinds(e, m)
		}
	case []interface{}:
		m["slice"]++
		for _, e := range x {
			if _, ok := e.(time.Time); ok {
				m["time-in-slice"]++
			}
			countKinds(e, m)
		}
	case nil:
		m["nil"]++
	default:
		m[reflect.TypeOf(v).String()]++
	}
}

// ---------------------------------------------------------------- C16

func critDoc(g *Gen, h *HistGen) map[string]interface{} {
	m := h.doc(pickOf(g, idPool))
	return m
}

func satVia(c *Crit, doc *d.Document) (res T) {
	defer func() {
		if r := recover(); r != nil {
			res = []T{int64(99), TS(fmt.Sprint(r))}
		}
	}()
	q, err := clover.VerifNormalizeCriteria(query.NewQuery("x").Where(c.build()))
	if err != nil {
		return []T{int64(1)}
	}
	return []T{int64(0), Tbool(q.Criteria().Satisfy(doc))}
}

func bigToFloat(r *big.Rat) float64 { f, _ := r.Float64(); return f }

func runC16(seed int64, n int, out string) *RunReport {
	f := &failer{}
	cs := &CaseSet{}
	g := NewGen(seed*77 + 3)
	h := NewHistGen(g, HistCfg{Colls: 1})
	evals := 0
	laws := map[string]int{}
	var samples []interface{}
	for i := 0; i < n; i++ {
		m := critDoc(g, h)
		doc := d.NewDocumentOf(copyCanon(m))
		a, b := h.crit(2), h.crit(2)
		a.countOps(h.crits)
		b.countOps(h.crits)
		sat := func(c *Crit) T { evals++; return satVia(c, doc) }
		same := func(law string, x, y *Crit) {
			laws[law]++
			rx, ry := Tstr(sat(x)), Tstr(sat(y))
			if rx != ry {
				f.failf("law %s fails on document %s: %s gives %s but %s gives %s", law, gValue(m), x.term(), rx, y.term(), ry)
			}
		}
		not := func(c *Crit) *Crit { return &Crit{Kind: "not", A: c} }
		and := func(x, y *Crit) *Crit { return &Crit{Kind: "and", A: x, B: y} }
		or := func(x, y *Crit) *Crit { return &Crit{Kind: "or", A: x, B: y} }
		// model comparison of the plain criteria
		ra := sat(a)
		cs.Add(fmt.Sprintf("(HSat %s %s %s)", a.term(), gObj(m), Tstr(ra)), i < 60)
		// Boolean algebra
		if Tstr(ra) != "(TL [(TZ 1)])" && Tstr(sat(b)) != "(TL [(TZ 1)])" {
			same("demorgan-and", not(and(a, b)), or(not(a), not(b)))
			same("demorgan-or", not(or(a, b)), and(not(a), not(b)))
			same("double-negation", not(not(a)), a)
			same("and-comm", and(a, b), and(b, a))
			same("or-comm", or(a, b), or(b, a))
			same("absorption", or(a, and(a, b)), a)
			// Not really negates
			rn := sat(not(a))
			if l, ok := ra.([]T); ok && len(l) == 2 {
				if ln, ok := rn.([]T); ok && len(ln) == 2 && Tstr(l[1]) == Tstr(ln[1]) {
					f.failf("Not(c) agrees with c on %s for %s", gValue(m), a.term())
				}
			}
		}
		// operator identities on a random field / operand
		fld := h.critField()
		v := h.operand()
		cmp := func(op string) *Crit { return &Crit{Kind: "cmp", Op: op, Field: fld, Val: v} }
		same("neq=not-eq", &Crit{Kind: "neq", Field: fld, Val: v}, not(cmp("OEq")))
		same("notexists=not-exists", &Crit{Kind: "notexists", Field: fld}, not(&Crit{Kind: "exists", Field: fld}))
		for _, nilish := range []Operand{{Lit: nil}, {IsRef: true, Ref: "zz"}, {Lit: "$zz"}} {
			same("neq-nil=not-eq-nil", &Crit{Kind: "neq", Field: fld, Val: nilish}, not(&Crit{Kind: "cmp", Op: "OEq", Field: fld, Val: nilish}))
		}
		// Contains with a repeated operand means the same as without the repetition
		if arr, isArr := doc.Get("arr").([]interface{}); isArr && len(arr) > 0 {
			e := arr[g.Intn(len(arr))]
			same("contains-repeated", &Crit{Kind: "contains", Field: "arr", Vals: []Operand{{Lit: e}, {Lit: e}, {Lit: e}, {Lit: e}, {Lit: e}}}, &Crit{Kind: "contains", Field: "arr", Vals: []Operand{{Lit: e}}})
		}
		same("lt=not-ge", cmp("OLt"), not(cmp("OGtEq")))
		same("gt=not-le", cmp("OGt"), not(cmp("OLtEq")))
		vs := []Operand{h.operand(), h.operand()}
		same("in=or-of-in", &Crit{Kind: "in", Field: fld, Vals: vs}, or(&Crit{Kind: "in", Field: fld, Vals: vs[:1]}, &Crit{Kind: "in", Field: fld, Vals: vs[1:]}))
		same("contains=and-of-contains", &Crit{Kind: "contains", Field: fld, Vals: vs}, and(&Crit{Kind: "contains", Field: fld, Vals: vs[:1]}, &Crit{Kind: "contains", Field: fld, Vals: vs[1:]}))
		if doc.Has(fld) {
			same("in-singleton=eq", &Crit{Kind: "in", Field: fld, Vals: []Operand{v}}, cmp("OEq"))
		}
		same("notexists=not-exists", not(&Crit{Kind: "exists", Field: fld}), &Crit{Kind: "not", A: &Crit{Kind: "exists", Field: fld}})
		// literal kind invariance: the same small number in every Go numeric kind
		z := g.Intn(8)
		lits := []interface{}{int(z), int8(z), int16(z), int32(z), int64(z), uint(z), uint8(z), uint16(z), uint32(z), uint64(z), float32(z), float64(z)}
		for _, op := range []string{"OEq", "OGt", "OGtEq", "OLt", "OLtEq"} {
			base := &Crit{Kind: "cmp", Op: op, Field: fld, Val: Operand{Lit: lits[0]}}
			for _, l := range lits[1:] {
				same("literal-kind", base, &Crit{Kind: "cmp", Op: op, Field: fld, Val: Operand{Lit: l}})
			}
		}
		same("literal-kind-in", &Crit{Kind: "in", Field: fld, Vals: []Operand{{Lit: lits[0]}}}, &Crit{Kind: "in", Field: fld, Vals: []Operand{{Lit: lits[11]}}})
		// field reference forms: Field(name) and "$name"
		ref := pickOf(g, []string{"a", "b", "x", "n.a", "zz"})
		for _, op := range []string{"OEq", "OGt", "OLt"} {
			same("ref-forms", &Crit{Kind: "cmp", Op: op, Field: fld, Val: Operand{IsRef: true, Ref: ref}},
				&Crit{Kind: "cmp", Op: op, Field: fld, Val: Operand{Lit: "$" + ref}})
		}
		same("ref-forms-in", &Crit{Kind: "in", Field: fld, Vals: []Operand{{IsRef: true, Ref: ref}}}, &Crit{Kind: "in", Field: fld, Vals: []Operand{{Lit: "$" + ref}}})
		// a reference reads the document under test
		lit := doc.Get(ref)
		if s, isStr := lit.(string); !isStr || len(s) == 0 || s[0] != '$' {
			for _, op := range []string{"OGt", "OLt", "OGtEq"} {
				same("ref-reads-doc", &Crit{Kind: "cmp", Op: op, Field: fld, Val: Operand{IsRef: true, Ref: ref}},
					&Crit{Kind: "cmp", Op: op, Field: fld, Val: Operand{Lit: lit}})
			}
		}
		if i < 2 {
			samples = append(samples, map[string]string{"criteria": clip(a.term(), 300), "document": clip(gValue(m), 300), "impl": Tstr(ra)})
		}
	}
	// literal-kind invariance on the boundary values, systematically: the same number stored under one Go kind and supplied
	// as a literal under another must give the same answer for every operator (and the model agrees)
	{
		type num struct {
			v interface{}
			r *big.Rat
		}
		mk := func(v interface{}) num {
			r := new(big.Rat)
			switch x := v.(type) {
			case int64:
				r.SetInt64(x)
			case uint64:
				r.SetInt(new(big.Int).SetUint64(x))
			case float64:
				r.SetFloat64(x)
			}
			return num{v, r}
		}
		nums := []num{mk(int64(0)), mk(uint64(0)), mk(float64(0)), mk(math.Copysign(0, -1)), mk(int64(-1)), mk(uint64(1)), mk(float64(1)), mk(int64(1)),
			mk(int64(math.MaxInt64)), mk(uint64(math.MaxInt64)), mk(uint64(1 << 63)), mk(int64(math.MinInt64)), mk(uint64(math.MaxUint64)), mk(float64(-1)), mk(float64(1 << 53)), mk(int64(1 << 53))}
		for _, stored := range nums {
			m := map[string]interface{}{"a": stored.v, "arr": []interface{}{stored.v}}
			doc := d.NewDocumentOf(copyCanon(m))
			for _, lit := range nums {
				_, sf := stored.v.(float64)
				_, lf := lit.v.(float64)
				exact := !sf && !lf // integer against integer is compared exactly; with a float involved the integer is converted first
				c := stored.r.Cmp(lit.r)
				for _, op := range []string{"OEq", "OGt", "OGtEq", "OLt", "OLtEq"} {
					cr := &Crit{Kind: "cmp", Op: op, Field: "a", Val: Operand{Lit: lit.v}}
					r := satVia(cr, doc)
					evals++
					cs.Add(fmt.Sprintf("(HSat %s %s %s)", cr.term(), gObj(m), Tstr(r)), false)
					if exact || (math.Abs(bigToFloat(stored.r)) <= 1<<53 && math.Abs(bigToFloat(lit.r)) <= 1<<53) {
						want := map[string]bool{"OEq": c == 0, "OGt": c > 0, "OGtEq": c >= 0, "OLt": c < 0, "OLtEq": c <= 0}[op]
						if Tstr(r) != Tstr([]T{int64(0), Tbool(want)}) {
							f.failf("%s of stored %T %v against literal %T %v answers %s, numerically it is %v", op, stored.v, stored.v, lit.v, lit.v, Tstr(r), want)
						}
					}
				}
				if exact || (math.Abs(bigToFloat(stored.r)) <= 1<<53 && math.Abs(bigToFloat(lit.r)) <= 1<<53) {
					for _, kind := range []string{"in", "contains"} {
						fld := map[string]string{"in": "a", "contains": "arr"}[kind]
						r := satVia(&Crit{Kind: kind, Field: fld, Vals: []Operand{{Lit: lit.v}}}, doc)
						evals++
						if Tstr(r) != Tstr([]T{int64(0), Tbool(c == 0)}) {
							f.failf("%s of stored %T %v with operand %T %v answers %s, numerically equal: %v", kind, stored.v, stored.v, lit.v, lit.v, Tstr(r), c == 0)
						}
					}
				}
			}
		}
		laws["numeric-grid"] = len(nums) * len(nums)
	}
	files := cs.Write(out, "c16")
	return &RunReport{Stream: "c16", Seed: seed, Evaluations: evals, Distinct: len(laws) + len(h.crits),
		Rule:         "one evaluation = one Satisfy call (after the DB's literal normalisation) on a generated document; laws compare two algebraically equivalent criteria on the implementation; plain criteria are also compared with the model",
		OracleFails:  f.fails, CaseFiles: files, Samples: samples,
		Distribution: map[string]interface{}{"documents": n, "laws": laws, "criteria_nodes": h.crits}}
}

// ---------------------------------------------------------------- C18

type Base struct {
	Id  uint32 `clover:"id"`
	Tag string
}
type inner struct {
	A int
}
type Person struct {
	Name    string  `clover:"name"`
	Age     int     `clover:"age,omitempty"`
	Email   *string `clover:"email,omitempty"`
	Score   **float32
	secret  int
	Base
	Any     interface{} `clover:"any,omitempty"`
	Tags    []string    `clover:",omitempty"`
	When    time.Time
	WhenP   *time.Time
	M       map[string]int8
	Arr     [2]uint16
	Nested  struct{ X, y int }
	In      inner
	Skipped bool `clover:"skipped,omitempty"`
}
type WithBad struct {
	Ok int
	Ch chan int
}
type WithBytes struct {
	B []byte
}
type Embeds struct {
	*Base
	Z float32
}

func normObs(x interface{}) (res T) {
	defer func() {
		if r := recover(); r != nil {
			res = []T{int64(99), TS(fmt.Sprint(r))}
		}
	}()
	v, err := clover.VerifNormalize(x)
	if err != nil {
		return []T{int64(1)}
	}
	if _, isBytes := v.([]byte); isBytes {
		return []T{int64(2)}
	}
	if rv := reflect.ValueOf(v); rv.IsValid() && (rv.Kind() == reflect.Array || rv.Kind() == reflect.Slice) && rv.Type().Elem().Kind() == reflect.Uint8 {
		return []T{int64(2)}
	}
	return []T{int64(0), tValue(v)}
}

func goValues(g *Gen) []interface{} {
	s := "e@x"
	f32 := float32(2.5)
	pf := &f32
	t0 := time.Unix(1700000000, 5).In(zoneP2)
	var nilp *int
	var nilt *time.Time
	z := g.Intn(100)
	p := Person{Name: pickOf(g, []string{"", "bob", "ü"}), Age: z % 3, Score: &pf, secret: 1, Base: Base{Id: uint32(z), Tag: "t"},
		When: t0, M: map[string]int8{"k": int8(z % 5), "a": 1}, Arr: [2]uint16{1, uint16(z)}, In: inner{A: z}}
	if g.Bool() {
		p.Email = &s
	}
	if g.Bool() {
		p.Any = []int{1, 2}
	}
	if g.Bool() {
		p.Tags = []string{"x"}
	}
	if g.Bool() {
		p.WhenP = &t0
	}
	if g.Bool() {
		p.Skipped = true
	}
	pp := &p
	tp := &t0
	tpp := &tp
	zero, empty, no := 0, "", false
	type Opt struct {
		PI  *int        `clover:"pi,omitempty"`
		PS  *string     `clover:"ps,omitempty"`
		PB  *bool       `clover:"pb,omitempty"`
		I   interface{} `clover:"i,omitempty"`
		J   interface{} `clover:"j,omitempty"`
		TPP **time.Time `clover:"tpp,omitempty"`
	}
	return []interface{}{
		tpp, &tpp, map[string]interface{}{"when": tpp}, []interface{}{tpp}, struct{ T **time.Time }{tpp},
		Opt{PI: &zero, PS: &empty, PB: &no, I: 0, J: "", TPP: tpp}, Opt{}, &Opt{PI: &z},
		nil, int(z), int8(z), int16(z), int32(-z), int64(z), uint(z), uint8(z), uint16(z), uint32(z), uint64(z), float32(z) / 4, float64(z) / 8,
		"s", true, t0, &t0, nilt, nilp, &z, &pp, p, pp,
		[]int{1, z}, [3]int8{1, 2, 3}, []interface{}{z, "a", nil, &z, []uint16{1}}, []string{}, []*int{&z, nil},
		map[string]interface{}{"a": z, "b": map[string]interface{}{"c": int8(1)}, "": nil}, map[string]*int{"p": &z, "n": nil}, map[int]string{1: "a"},
		map[string][]float32{"f": {1.5}}, []byte{1, 2}, [2]byte{1, 2}, WithBad{Ok: 1}, &WithBad{}, WithBytes{B: []byte{1}},
		make(chan int), func() {}, complex(1, 2), uintptr(5), Embeds{Z: 1}, Embeds{Base: &Base{Id: 1}, Z: 2},
		struct {
			A int `clover:"a"`
			B int `clover:"a"`
		}{1, 2},
		struct {
			A *int `clover:"a,omitempty"`
			B interface{}
		}{nil, nil},
		map[string]interface{}{"t": &t0, "deep": []interface{}{map[string]interface{}{"z": uint8(z)}}},
		g.Value(3), g.Value(3),
	}
}

func runC18(seed int64, n int, out string) *RunReport {
	f := &failer{}
	cs := &CaseSet{}
	g := NewGen(seed*13 + 1)
	evals := 0
	kinds := map[string]int{}
	outcomes := map[string]int{}
	known := map[string]bool{}
	var samples []interface{}
	for i := 0; i < n; i++ {
		for j, x := range goValues(g) {
			evals++
			obs := normObs(x)
			outcomes[errKind(obs)]++
			kinds[fmt.Sprintf("%T", x)]++
			if !strings.Contains(Tstr(obs), "(TZ 99)") || true {
				if v, err := clover.VerifNormalize(x); !(err == nil && strings.Contains(nonCanonical(v), "uint8") && errKind(obs) == "e0") {
					cs.Add(fmt.Sprintf("(HNorm %s %s)", gGoval(x), Tstr(obs)), i == 0)
				}
			}
			if i == 0 && j%17 == 3 {
				samples = append(samples, map[string]string{"go_value": clip(fmt.Sprintf("%T %v", x, x), 200), "impl": clip(Tstr(obs), 300)})
			}
			l := obs.([]T)
			if z, _ := l[0].(int64); z == 0 {
				v, _ := clover.VerifNormalize(x)
				// canonical universe only
				if why := nonCanonical(v); why != "" {
					if strings.Contains(why, "uint8") {
						known["K-bytes: Normalize passes []uint8 through un-normalised (result outside the canonical universe), e.g. inside "+fmt.Sprintf("%T", x)] = true
						continue
					}
					f.failf("Normalize(%T %v) is not canonical: %s", x, x, why)
				}
				// idempotence
				v2, err := clover.VerifNormalize(v)
				if err != nil || Tstr(tValue(v2)) != Tstr(tValue(v)) {
					f.failf("Normalize not idempotent on %T %v: %s then %s", x, x, gValue(v), gValue(v2))
				}
				// NewDocumentOf agrees
				doc := d.NewDocumentOf(x)
				if m, isMap := v.(map[string]interface{}); isMap {
					if doc == nil || Tstr(tValue(doc.AsMap())) != Tstr(tValue(m)) {
						f.failf("NewDocumentOf(%T) differs from Normalize", x)
					}
				} else if doc != nil {
					f.failf("NewDocumentOf(%T) returned a document for a non-map value", x)
				}
			}
			// Set: unsupported values leave the document unchanged; supported ones obey the path laws
			base := map[string]interface{}{"a": int64(1), "n": map[string]interface{}{"a": int64(2), "b": "x"}, "s": "str", "arr": []interface{}{int64(1)}}
			if g.Chance(0.35) {
				// a field whose NAME contains a dot (from a Go map key) next to the nested path of the same spelling:
				// Get, Has and Set all address the nested path
				base["n.a"] = "literal"
				if g.Bool() {
					base["q.r"] = int64(9)
				}
			}
			name := pickOf(g, []string{"a", "n.a", "n.c", "s.k", "new", "n", "arr.x", "q.r.s", ""})
			probe := pickOf(g, []string{"a", "n.a", "n.b", "s", "n", "new", "q.r", "arr"})
			doc := d.NewDocumentOf(copyCanon(base))
			func() {
				defer func() {
					if r := recover(); r != nil {
						f.failf("Set(%q, %T) panicked: %v", name, x, r)
					}
				}()
				doc.Set(name, x)
			}()
			evals++
			after := doc.AsMap()
			if nonCanonical(after) == "" {
				cs.Add(fmt.Sprintf("(HDocSet %s %s %s %s %s)", gObj(base), gStr(name), gGoval(x), gStr(probe),
					Tstr([]T{tValue(after), Tbool(doc.Has(probe)), tValue(doc.Get(probe))})), i == 0 && j < 30)
			}
			if z, _ := l[0].(int64); z == 1 {
				if Tstr(tValue(after)) != Tstr(tValue(base)) {
					f.failf("Set(%q, unsupported %T) changed the document to %s", name, x, gValue(after))
				}
			} else if z == 0 {
				v, _ := clover.VerifNormalize(x)
				if !doc.Has(name) || Tstr(tValue(doc.Get(name))) != Tstr(tValue(v)) {
					f.failf("Get(%q) after Set(%q, %T) = %s, Has=%v", name, name, x, gValue(doc.Get(name)), doc.Has(name))
				}
			}
		}
	}
	// structs through NewDocumentOf and Document.Unmarshal (unm.go)
	unmOutcomes := map[string]int{}
	runUnmarshalCases(g, n*4, cs, f, &evals, unmOutcomes, &samples, known)
	files := cs.Write(out, "c18")
	return &RunReport{Stream: "c18", Seed: seed, Evaluations: evals, Distinct: len(kinds),
		Rule:         "one evaluation = one Normalize (or Set) call on a Go value built from structs with tags, pointers, maps, slices, arrays and unsupported kinds, compared with the model and checked for canonicity, idempotence and the Set/Get/Has laws, or one NewDocumentOf + Document.Unmarshal of a reflect-filled struct (same or another target type) compared with the model's Unmarshal and checked for: document unchanged, and inside the round-trip domain Normalize(result) = Normalize(original); distinct = distinct Go types",
		OracleFails:  f.fails, CaseFiles: files, Samples: samples, Known: keysOf(known),
		Distribution: map[string]interface{}{"rounds": n, "go_types": len(kinds), "outcomes": outcomes, "unmarshal": unmOutcomes, "unmarshal_struct_types": len(unmTypes)}}
}

// nonCanonical reports the first place where v leaves {nil,int64,uint64,float64,string,bool,time.Time,
// map[string]interface{},[]interface{}}
func nonCanonical(v interface{}) string {
	switch x := v.(type) {
	case nil, int64, uint64, float64, string, bool, time.Time:
		return ""
	case []interface{}:
		for _, e := range x {
			if w := nonCanonical(e); w != "" {
				return w
			}
		}
		return ""
	case map[string]interface{}:
		for _, e := range x {
			if w := nonCanonical(e); w != "" {
				return w
			}
		}
		return ""
	}
	return fmt.Sprintf("%T", v)
}

func keysOf(m map[string]bool) []string {
	ks := make([]string, 0, len(m))
	for k := range m {
		ks = append(ks, k)
	}
	sort.Strings(ks)
	return ks
}

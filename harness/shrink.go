package main

import (
	"encoding/json"
	"fmt"
	"os"
	"path/filepath"
)

type Shrunk struct {
	Stream             string      `json:"stream"`
	Case               string      `json:"case"`                 // minimal hcase term (implementation outputs included)
	ModelSays          string      `json:"model_says"`           // oracle verdict on it
	Explanation        string      `json:"explanation"`
	FineObservableOnly bool        `json:"fine_observable_only"` // only a finer-than-property observable diverges
	Extra              interface{} `json:"extra,omitempty"`
}

func shrinkCase(stream string, seed int64, n, idx int, out, oraclePath, prop, tier string) {
	or := StartOracle(oraclePath)
	defer or.Close()
	var sh *Shrunk
	switch stream {
	case "c10":
		sh = shrinkC10(seed, n, or)
	default:
		sh = shrinkGeneric(stream, seed, n, idx, or, prop, tier)
	}
	if sh != nil {
		writeJSON(filepath.Join(out, fmt.Sprintf("shrunk_%d.json", idx)), sh)
	}
}

func shrinkC10(seed int64, n int, or *Oracle) *Shrunk {
	r := runC10(seed, n)
	all := make([]int, len(r.pool))
	for i := range all {
		all[i] = i
	}
	line := or.Check(r.caseTerm(all))
	ints := mismatchInts(line, 2)
	if len(ints) < 2 {
		return nil
	}
	i, j := ints[0], ints[1]
	var idx []int
	if j < 0 {
		idx = []int{i}
	} else {
		idx = []int{i, j}
	}
	term := r.caseTerm(idx)
	sh := &Shrunk{Stream: "c10", Case: term, ModelSays: or.Check(term)}
	if j < 0 {
		sh.Explanation = fmt.Sprintf("index key bytes of %s differ from the model's", gValue(r.pool[i]))
		sh.FineObservableOnly = true
	} else {
		sh.Explanation = fmt.Sprintf("implementation compare(%s, %s) = %d, model (proved a total preorder) disagrees", gValue(r.pool[i]), gValue(r.pool[j]), r.signs[i][j])
	}
	return sh
}

// replayFile re-executes the case recorded in a replay file against the current implementation.
func replayFile(path, oraclePath string) int {
	b, err := os.ReadFile(path)
	if err != nil {
		fmt.Println(err)
		return 2
	}
	var content struct {
		Stream string  `json:"stream"`
		Case   string  `json:"case"`
		Shrunk *Shrunk `json:"shrunk"`
	}
	json.Unmarshal(b, &content)
	term := content.Case
	if content.Shrunk != nil && content.Shrunk.Case != "" {
		term = content.Shrunk.Case
	}
	// re-run the implementation on the recorded inputs and compare with the model again
	fresh, err := reExecute(content.Stream, term)
	if err != nil {
		fmt.Println("cannot re-execute:", err)
		return 2
	}
	or := StartOracle(oraclePath)
	defer or.Close()
	verdict := or.Check(fresh)
	fmt.Println("case:", fresh)
	fmt.Println("model verdict:", verdict)
	if verdict == "OK" {
		return 0
	}
	return 1
}

package main

// A recording store: wraps a real store.Store (bbolt or badger) so the harness can count store calls,
// fail the k-th call, exit the process at the k-th call, yield the goroutine at every call, and dump
// the whole key space through the store interface.

import (
	"encoding/json"
	"fmt"
	"os"
	"runtime"
	"strings"
	"sync/atomic"
	"time"

	badgerlib "github.com/dgraph-io/badger/v4"
	d "github.com/ostafen/clover/v2/document"
	"github.com/ostafen/clover/v2/store"
	"github.com/ostafen/clover/v2/store/badger"
	"github.com/ostafen/clover/v2/store/bbolt"
)

type recStore struct {
	inner   store.Store
	calls   int64 // store calls since the last reset
	failAt  int64 // fail the call with this index (0-based); -1 = never
	exitAt  int64 // os.Exit(137) at this call; -1 = never
	yield   bool
	stall   bool  // hold every other read-only transaction's Rollback until two more write commits went through
	commits int64 // successful write commits
	reads   int64
	fired   int32
	trace   []string
	tracing bool
	crashAt int64  // call onCrash at this call; -1 = never
	onCrash func()
}

func newRecStore(inner store.Store) *recStore {
	return &recStore{inner: inner, failAt: -1, exitAt: -1, crashAt: -1}
}

func (s *recStore) reset() {
	atomic.StoreInt64(&s.calls, 0)
	s.failAt = -1
	s.exitAt = -1
	s.crashAt = -1
	atomic.StoreInt32(&s.fired, 0)
	s.trace = nil
}

// tick is called at the start of every fallible store call; returns an error when the fault fires.
func (s *recStore) tick(what string) error {
	n := atomic.AddInt64(&s.calls, 1) - 1
	if s.tracing {
		s.trace = append(s.trace, what)
	}
	if s.yield {
		runtime.Gosched()
	}
	if s.crashAt >= 0 && n == s.crashAt && s.onCrash != nil {
		s.onCrash()
	}
	if s.exitAt >= 0 && n == s.exitAt {
		os.Exit(137)
	}
	if s.failAt >= 0 && n == s.failAt {
		atomic.StoreInt32(&s.fired, 1)
		return errInjected
	}
	return nil
}

func (s *recStore) Begin(update bool) (store.Tx, error) {
	if err := s.tick("begin"); err != nil {
		return nil, err
	}
	tx, err := s.inner.Begin(update)
	if err != nil {
		return nil, err
	}
	return &recTx{s: s, inner: tx, update: update}, nil
}

func (s *recStore) Close() error { return s.inner.Close() }

type recTx struct {
	s      *recStore
	inner  store.Tx
	update bool
	done   bool
}

func (t *recTx) Set(key, value []byte) error {
	if err := t.s.tick("set"); err != nil {
		return err
	}
	return t.inner.Set(key, value)
}
func (t *recTx) Get(key []byte) ([]byte, error) {
	if err := t.s.tick("get"); err != nil {
		return nil, err
	}
	return t.inner.Get(key)
}
func (t *recTx) Delete(key []byte) error {
	if err := t.s.tick("delete"); err != nil {
		return err
	}
	return t.inner.Delete(key)
}
func (t *recTx) Cursor(forward bool) (store.Cursor, error) {
	if err := t.s.tick("cursor"); err != nil {
		return nil, err
	}
	c, err := t.inner.Cursor(forward)
	if err != nil {
		return nil, err
	}
	return &recCursor{s: t.s, inner: c}, nil
}
func (t *recTx) Commit() error {
	if err := t.s.tick("commit"); err != nil {
		return err
	}
	err := t.inner.Commit()
	t.done = true
	if err == nil && t.update {
		atomic.AddInt64(&t.s.commits, 1)
	}
	return err
}

// Rollback of a read-only transaction is where a reader lets go of its snapshot. With stall set, every other one
// then waits (bounded) for two further write commits, so that anything the reader still holds from the
// released snapshot (a slice into a recycled page, say) is used after writers have moved on.
func (t *recTx) Rollback() error {
	err := t.inner.Rollback()
	if t.s.stall && !t.update && !t.done {
		t.done = true
		if atomic.AddInt64(&t.s.reads, 1)%2 == 0 {
			start := atomic.LoadInt64(&t.s.commits)
			deadline := time.Now().Add(6 * time.Millisecond)
			for atomic.LoadInt64(&t.s.commits) < start+2 && time.Now().Before(deadline) {
				time.Sleep(100 * time.Microsecond)
			}
		}
	}
	return err
}

type recCursor struct {
	s     *recStore
	inner store.Cursor
}

func (c *recCursor) Seek(key []byte) error { return c.inner.Seek(key) }
func (c *recCursor) Next()                 { c.inner.Next() }
func (c *recCursor) Valid() bool           { return c.inner.Valid() }
func (c *recCursor) Item() (store.Item, error) {
	if err := c.s.tick("item"); err != nil {
		return store.Item{}, err
	}
	return c.inner.Item()
}
func (c *recCursor) Close() error { return c.inner.Close() }

// ---- opening backends ----

func openBackend(backend, dir string) (store.Store, error) {
	switch backend {
	case "bbolt":
		return bbolt.Open(dir)
	case "badger":
		return badger.OpenWithOptions(badgerlib.DefaultOptions("").WithInMemory(true).WithLoggingLevel(badgerlib.ERROR))
	case "badgerdisk":
		return badger.OpenWithOptions(badgerlib.DefaultOptions(dir).WithLoggingLevel(badgerlib.ERROR))
	case "badgeropen": // the adapter's own Open, with whatever options it chooses (logs to stderr)
		return badger.Open(dir)
	}
	return nil, fmt.Errorf("unknown backend %s", backend)
}

func scratchRoot() string {
	if st, err := os.Stat("/dev/shm"); err == nil && st.IsDir() {
		return "/dev/shm"
	}
	return os.TempDir()
}

// ---- raw dump through the store interface ----

type metaJSON struct {
	Size    int
	Indexes []struct {
		Field string
		Type  int
	}
}

// dump renders the whole key space as the model's T_of_kv does.
// dumpStore with a deadline: a read transaction can block behind a wedged writer (bbolt waiting to remap)
func dumpStore(st store.Store) (T, error) {
	type out struct {
		t   T
		err error
	}
	ch := make(chan out, 1)
	go func() {
		t, err := dumpStoreRaw(st)
		ch <- out{t, err}
	}()
	select {
	case o := <-ch:
		return o.t, o.err
	case <-time.After(30 * time.Second):
		storeBlocked = true
		return []T{}, fmt.Errorf("store dump did not return within 30s")
	}
}

// set when a raw read of the store blocked: the streams report it
var storeBlocked bool

func dumpStoreRaw(st store.Store) (res T, err error) {
	defer func() {
		if r := recover(); r != nil {
			err = fmt.Errorf("dump panic: %v", r)
		}
	}()
	tx, err := st.Begin(false)
	if err != nil {
		return nil, err
	}
	defer tx.Rollback()
	cur, err := tx.Cursor(true)
	if err != nil {
		return nil, err
	}
	defer cur.Close()
	if err := cur.Seek([]byte{0}); err != nil {
		return nil, err
	}
	out := []T{}
	for ; cur.Valid(); cur.Next() {
		it, err := cur.Item()
		if err != nil {
			return nil, err
		}
		key := append([]byte{}, it.Key...)
		ks := string(key)
		var sv T
		switch {
		case strings.HasPrefix(ks, "coll:"):
			var m metaJSON
			if e := json.Unmarshal(it.Value, &m); e != nil {
				sv = []T{int64(97), TB(it.Value)}
			} else {
				idx := make([]T, len(m.Indexes))
				for i, x := range m.Indexes {
					idx[i] = TS(x.Field)
				}
				sv = []T{int64(2), int64(m.Size), idx}
			}
		case len(it.Value) == 0:
			sv = []T{int64(3)}
		default:
			doc, e := d.Decode(append([]byte{}, it.Value...))
			if e != nil {
				sv = []T{int64(96), TB(it.Value)}
			} else {
				sv = []T{int64(1), tDoc(doc)}
			}
		}
		out = append(out, []T{TB(key), sv})
	}
	return out, nil
}

func (env *Env) open() error {
	inner, err := openBackend(env.backend, env.dir)
	if err != nil {
		return err
	}
	env.st = newRecStore(inner)
	env.closed = false
	db, err := cloverOpen(env.st)
	env.db = db
	return err
}

func (env *Env) reopen() {
	env.db.Close()
	if err := env.open(); err != nil {
		panic(err)
	}
}

var tempDirs []string

func mkTemp(prefix string) (string, error) {
	d, err := os.MkdirTemp(scratchRoot(), prefix)
	if err == nil {
		tempDirs = append(tempDirs, d)
	}
	return d, err
}

func cleanupTemps() {
	for _, d := range tempDirs {
		os.RemoveAll(d)
	}
}

package main

// C04: fault enumeration. For an operation in a generated state, count its store calls, then re-run it
// from the same state with every call position failing in turn; compare (result, raw key space) with the
// model, and check directly: error => state unchanged, fault fired => error, handle not wedged.
// C05: the same enumeration with the process "crashing" at the call (see crash.go).

import (
	"fmt"
	"os"
	"path/filepath"
	"sort"
	"strings"
	"time"

	d "github.com/ostafen/clover/v2/document"
	"github.com/ostafen/clover/v2/query"
)

// bake the ids the implementation generated into the documents, so that a history can be replayed exactly
func bakeIds(ops []*Op) []*Op {
	out := make([]*Op, len(ops))
	for i, o := range ops {
		c := *o
		if (o.Kind == "Insert" || o.Kind == "Save") && len(o.Fresh) > 0 {
			fi := 0
			docs := make([]map[string]interface{}, len(o.Docs))
			for j, m := range o.Docs {
				mm := copyCanon(m).(map[string]interface{})
				if needsId(m) && fi < len(o.Fresh) {
					mm["_id"] = o.Fresh[fi]
					fi++
				}
				docs[j] = mm
			}
			c.Docs = docs
			c.Fresh = nil
		}
		out[i] = &c
	}
	return out
}

func opsTerm(ops []*Op) string {
	parts := make([]string, len(ops))
	for i, o := range ops {
		parts[i] = o.term()
	}
	return "[" + strings.Join(parts, ";") + "]"
}

func replayOn(env *Env, ops []*Op) {
	for _, o := range ops {
		cp := *o
		cp.exec(env)
	}
}

// candidate operations to put under faults in the state reached by base
func (h *HistGen) faultTargets(n int) []*Op {
	// one operation of as many different kinds as the generator produces in a few hundred draws
	var out []*Op
	seen := map[string]int{}
	for tries := 0; len(out) < n && tries < 400; tries++ {
		o := h.next()
		if o.Kind == "Reopen" || o.Kind == "Close" {
			continue
		}
		if seen[o.Kind] >= 1 {
			continue
		}
		seen[o.Kind]++
		out = append(out, o)
	}
	return out
}

func withDeadline(d time.Duration, f func()) bool {
	done := make(chan struct{})
	go func() {
		defer func() { recover(); close(done) }()
		f()
	}()
	select {
	case <-done:
		return true
	case <-time.After(d):
		return false
	}
}

// follow-up writes after an operation under test: one document into every collection (fixed ids, so that two
// runs that agree on the catalog store the same keys), which rewrites every metadata record and index
func faultFollowUps(env *Env) {
	withDeadline(10*time.Second, func() {
		names, err := env.db.ListCollections()
		if err != nil {
			return
		}
		sort.Strings(names)
		for i, c := range names {
			if c == "zz-followup" {
				continue
			}
			env.db.Insert(c, d.NewDocumentOf(map[string]interface{}{"_id": fmt.Sprintf("%08x-9999-4999-8999-%012x", i, i), "a": int64(i), "b": "fu", "x": int64(2), "n": map[string]interface{}{"a": int64(1)}}))
		}
	})
}

func isMultiTx(kind string) bool { return kind == "CreateByQuery" || kind == "Import" }

func runFaultStream(seed int64, n int, out, backendSpec, tier string) *RunReport {
	f := &failer{}
	cs := &CaseSet{}
	evals := 0
	distinct := map[string]bool{}
	known := map[string]bool{}
	kinds := map[string]int{}
	positions := map[string]int{}
	var samples []interface{}
	for hi := 0; hi < n; hi++ {
		for _, be := range backendsOf(backendSpec) {
			g := NewGen(histSeed(seed, hi) + 5)
			cfg := HistCfg{MinOps: 8, MaxOps: 22, Colls: 2, PMalformed: 0.04}
			res, h := runHistory(g, cfg, be, false)
			if res.Err != "" {
				f.failf("cannot run base history: %s", res.Err)
				continue
			}
			var extraTargets []*Op
			var baseOps []*Op
			for _, s := range res.Steps {
				baseOps = append(baseOps, s.Op)
			}
			base := bakeIds(baseOps)
			// every populated collection gets (at least) two more indexes at the end of the base history, so that the point
			// and bulk writes under faults maintain several indexes
			for _, c := range h.names {
				if cst := h.colls[c]; cst != nil && len(cst.ids) > 0 {
					for _, fld := range []string{"a", "b"} {
						base = append(base, &Op{Kind: "CreateIndex", Coll: c, Field: fld})
						has := false
						for _, x := range cst.indexes {
							has = has || x == fld
						}
						if !has {
							cst.indexes = append(cst.indexes, fld)
						}
					}
					// and writes that move a document in every one of them
					extraTargets = append(extraTargets, &Op{Kind: "UpdateById", Coll: c, Id: cst.ids[0], U: Updater{Kind: "funconst", Doc: map[string]interface{}{"_id": cst.ids[0], "a": int64(41), "b": "moved", "x": int64(7)}}})
					extraTargets = append(extraTargets, &Op{Kind: "Update", Q: QSpec{Coll: c}, KVs: map[string]interface{}{"a": int64(42), "b": int64(43)}})
					extraTargets = append(extraTargets, &Op{Kind: "DeleteById", Coll: c, Id: cst.ids[0]})
					break
				}
			}
			baseTerm := opsTerm(base)
			targets := append(h.faultTargets(24), extraTargets...)
			// bulk writes and ForEach through an in-memory sort (the sort node forwards documents in Finish)
			if c, ok := h.pickExisting(); ok {
				sorted := QSpec{Coll: c, Steps: []QStep{{Kind: "sort", Opts: []SortOpt{{"s", 1}, {"_id", -1}}}}}
				targets = append(targets, &Op{Kind: "UpdateFunc", Q: sorted, U: Updater{Kind: "funincr", Field: "b"}})
				targets = append(targets, &Op{Kind: "Delete", Q: QSpec{Coll: c, Steps: []QStep{{Kind: "sort", Opts: []SortOpt{{"b", -1}}}, {Kind: "skip", N: 1}}}})
				targets = append(targets, &Op{Kind: "Update", Q: sorted, KVs: map[string]interface{}{"x": int64(9)}})
				targets = append(targets, &Op{Kind: "ForEach", Q: sorted, Stop: 1, Mode: 1})
			}
			// catalog operations that really scan: an index created over existing documents, an existing index dropped, a
			// populated collection dropped; and indexed reads / writes through every existing index
			for _, c := range h.names {
				cst := h.colls[c]
				if cst == nil || len(cst.ids) == 0 {
					continue
				}
				targets = append(targets, &Op{Kind: "CreateIndex", Coll: c, Field: "zz-new"})
				for _, fld := range cst.indexes {
					targets = append(targets, &Op{Kind: "DropIndex", Coll: c, Field: fld})
					byIdx := QSpec{Coll: c, Steps: []QStep{{Kind: "sort", Opts: []SortOpt{{fld, 1}}}}}
					targets = append(targets, &Op{Kind: "FindAll", Q: byIdx, Mode: 2})
					targets = append(targets, &Op{Kind: "Delete", Q: QSpec{Coll: c, Steps: []QStep{{Kind: "where", C: &Crit{Kind: "cmp", Op: "OGtEq", Field: fld, Val: Operand{Lit: int(-100)}}}}}})
					// an excluded bound on the side the scan starts from (entries equal to the bound are stepped over first)
					targets = append(targets, &Op{Kind: "FindAll", Q: QSpec{Coll: c, Steps: []QStep{{Kind: "where", C: &Crit{Kind: "cmp", Op: "OGt", Field: fld, Val: Operand{Lit: int(-100)}}}}}, Mode: 2})
					targets = append(targets, &Op{Kind: "Update", Q: QSpec{Coll: c, Steps: []QStep{{Kind: "where", C: &Crit{Kind: "cmp", Op: "OLt", Field: fld, Val: Operand{Lit: int(100)}}}, {Kind: "sort", Opts: []SortOpt{{fld, -1}}}}}, KVs: map[string]interface{}{"zq": int64(1)}})
					break
				}
				targets = append(targets, &Op{Kind: "Count", Q: QSpec{Coll: c}})
				targets = append(targets, &Op{Kind: "DropCollection", Coll: c})
				break
			}
			// the multi-transaction composites, always (known finding K-composite)
			if c, ok := h.pickExisting(); ok {
				targets = append(targets, &Op{Kind: "CreateByQuery", Coll: "zq-new", Q: QSpec{Coll: c}})
				targets = append(targets, &Op{Kind: "Import", Coll: "zi-new", File: &ImportFile{Kind: "illformed", Text: "{not json"}})
				targets = append(targets, &Op{Kind: "Import", Coll: "zi-null", File: &ImportFile{Kind: "elems", Text: "[null]", Elems: []map[string]interface{}{nil}}})
			}
			// invalid-input targets: an offending document at every position of a batch
			if c, ok := h.pickExisting(); ok {
				for pos := 0; pos < 3; pos++ {
					docs := []map[string]interface{}{h.doc(idPool[7]), h.doc(idPool[8]), h.doc(idPool[9])}
					switch g.Intn(3) {
					case 0:
						docs[pos]["_id"] = pickOf(g, badIds)
					case 1:
						docs[pos]["_id"] = docs[(pos+1)%3]["_id"]
					default:
						docs[pos]["_expiresAt"] = "never"
					}
					targets = append(targets, &Op{Kind: "Insert", Coll: c, Docs: docs})
				}
			}
			for _, target := range targets {
				if target.Kind == "Insert" || target.Kind == "Save" {
					// give every document an id so that the run is replayable
					for _, m := range target.Docs {
						if needsId(m) {
							m["_id"] = fmt.Sprintf("%08x-1111-4222-8333-%012x", g.Intn(1<<30), g.Intn(1<<30))
						}
					}
				}
				kinds[target.Kind]++
				// fault-free run: count the calls
				env, err := newEnv(be)
				if err != nil {
					f.failf("open: %v", err)
					continue
				}
				replayOn(env, base)
				before, _ := dumpStore(env.st.inner)
				env.st.reset()
				t0 := *target
				r0 := t0.exec(env)
				ncalls := int(env.st.calls)
				after0, _ := dumpStore(env.st.inner)
				if !withDeadline(5*time.Second, func() { env.db.CreateCollection("zz-followup") }) {
					env.wedged = true
					f.failf("handle wedged after %s returned %s on %s: a follow-up write did not return within 5s; op %s", target.Kind, errKind(r0), be, t0.term())
				}
				// reference states for "a failed operation has no effect, not even on what later operations store":
				// the same follow-up writes after the completed operation, and after no operation at all
				refOK := ""
				if !env.wedged {
					faultFollowUps(env)
					dd, _ := dumpStore(env.st.inner)
					refOK = Tstr(dd)
				}
				env.destroy()
				refFail := ""
				if env2, err := newEnv(be); err == nil {
					replayOn(env2, base)
					env2.db.CreateCollection("zz-followup")
					faultFollowUps(env2)
					dd, _ := dumpStore(env2.st.inner)
					refFail = Tstr(dd)
					env2.destroy()
				}
				if errKind(r0) != "e0" && !isMultiTx(target.Kind) && refOK != "" && refOK != refFail {
					f.failf("after %s returned %s, later writes on the same handle store something else than if it had never been called (%s); op %s after %s", target.Kind, errKind(r0), be, t0.term(), clip(baseTerm, 600))
				}
				evals++
				cs.Add(fmt.Sprintf("(HFault %s %s (-1) %s %s %d)", baseTerm, t0.term(), Tstr(r0), Tstr(after0), ncalls), hi == 0 && len(cs.Sample) < 6)
				if errKind(r0) != "e0" && Tstr(after0) != Tstr(before) {
					if isMultiTx(target.Kind) {
						known["K-composite: "+target.Kind+" returned an error after its first transaction had committed (the created collection stays)"] = true
					} else {
						f.failf("%s returned %s but changed the store (%s): op %s after %s", target.Kind, errKind(r0), be, t0.term(), clip(baseTerm, 600))
					}
				}
				distinct[target.Kind+"/nofault/"+errKind(r0)] = true
				maxK := ncalls
				if tier == "quick" && maxK > 14 {
					maxK = 14
				}
				for k := 0; k < ncalls; k++ {
					if tier == "quick" && ncalls > 14 && k >= 10 && k < ncalls-4 {
						continue // head and tail of long call sequences in the quick tier
					}
					env, err := newEnv(be)
					if err != nil {
						continue
					}
					replayOn(env, base)
					env.st.reset()
					env.st.failAt = int64(k)
					env.st.tracing = true
					tk := *target
					rk := tk.exec(env)
					fired := env.st.fired == 1
					what := "?"
					if k < len(env.st.trace) {
						what = env.st.trace[k]
					}
					env.st.failAt = -1
					afterK, _ := dumpStore(env.st.inner)
					evals++
					positions[what]++
					distinct[target.Kind+"/"+what+"/"+errKind(rk)] = true
					cs.Add(fmt.Sprintf("(HFault %s %s %d %s %s (-1))", baseTerm, tk.term(), k, Tstr(rk), Tstr(afterK)), false)
					if fired && errKind(rk) == "e0" {
						f.failf("store failure at call %d (%s) of %s was swallowed: result OK (%s); op %s", k, what, target.Kind, be, tk.term())
					}
					if errKind(rk) != "e0" && Tstr(afterK) != Tstr(before) {
						if isMultiTx(target.Kind) {
							known["K-composite: "+target.Kind+" returned an error after its first transaction had committed (the created collection stays)"] = true
						} else {
							f.failf("%s failed at call %d (%s) with %s but left a trace in the store (%s); op %s after %s", target.Kind, k, what, errKind(rk), be, tk.term(), clip(baseTerm, 600))
						}
					}
					// the handle is not wedged: a follow-up write succeeds within the deadline
					ok := withDeadline(5*time.Second, func() {
						e1 := env.db.CreateCollection("zz-followup")
						if e1 != nil {
							f.failf("follow-up CreateCollection after failed %s (call %d %s) returned %v on %s", target.Kind, k, what, e1, be)
						}
					})
					if !ok {
						env.wedged = true
						f.failf("handle wedged after %s failed at call %d (%s) on %s: a follow-up write did not return within 5s; op %s", target.Kind, k, what, be, tk.term())
					}
					if ok && !isMultiTx(target.Kind) && refOK != "" && refFail != "" {
						faultFollowUps(env)
						dd, _ := dumpStore(env.st.inner)
						want, how := refFail, "had never been called"
						if errKind(rk) == "e0" {
							want, how = refOK, "had completed without a fault"
						}
						if Tstr(dd) != want {
							f.failf("%s hit a store failure at call %d (%s) and returned %s; later writes on the same handle then store something else than if it %s (%s); op %s after %s", target.Kind, k, what, errKind(rk), how, be, tk.term(), clip(baseTerm, 600))
						}
					}
					if len(samples) < 3 && k == ncalls/2 {
						samples = append(samples, map[string]interface{}{"op": clip(tk.term(), 300), "failing_call": k, "call_kind": what, "of_calls": ncalls, "impl_result": Tstr(rk), "backend": be})
					}
					env.destroy()
				}
			}
		}
	}
	// a large batch with the offending document far from the start: nothing of it may stay (direct oracle only)
	for _, be := range backendsOf(backendSpec) {
		for _, size := range []int{600, 1300} {
			for variant := 0; variant < 2; variant++ {
				env, err := newEnv(be)
				if err != nil {
					continue
				}
				env.db.CreateCollection("big")
				env.db.CreateIndex("big", "a")
				env.db.Insert("big", d.NewDocumentOf(scaleDoc(3)))
				before, _ := dumpStore(env.st.inner)
				docs := make([]*d.Document, size)
				for i := range docs {
					docs[i] = d.NewDocumentOf(scaleDoc(10 + i))
				}
				if variant == 0 {
					docs[size-7] = d.NewDocumentOf(scaleDoc(3)) // duplicate of a stored document
				} else {
					docs[size-7].Set("_id", "not-a-uuid")
				}
				err = env.db.Insert("big", docs...)
				after, _ := dumpStore(env.st.inner)
				evals++
				if err == nil {
					f.failf("Insert of %d documents with an offending document at position %d succeeded on %s", size, size-7, be)
				} else if Tstr(before) != Tstr(after) {
					f.failf("Insert of %d documents failed (%v) at position %d but left %d keys behind (%d before) on %s", size, err, size-7, len(after.([]T)), len(before.([]T)), be)
				}
				distinct[fmt.Sprintf("bigbatch/%d/%d", size, variant)] = true
				env.destroy()
			}
		}
	}
	// a batch larger than what one badger transaction accepts: refused as a whole, nothing of it may stay
	for _, be := range backendsOf(backendSpec) {
		if be != "badger" {
			continue
		}
		env, err := newEnv(be)
		if err != nil {
			continue
		}
		env.db.CreateCollection("huge")
		env.db.Insert("huge", d.NewDocumentOf(scaleDoc(1)))
		before, _ := dumpStore(env.st.inner)
		docs := make([]*d.Document, 72)
		pad := strings.Repeat("x", 200000)
		for i := range docs {
			m := scaleDoc(100 + i)
			m["pad"] = pad
			docs[i] = d.NewDocumentOf(m)
		}
		docs[71] = d.NewDocumentOf(scaleDoc(1)) // and its last document is a duplicate
		err = env.db.Insert("huge", docs...)
		after, _ := dumpStore(env.st.inner)
		evals++
		if err == nil {
			f.failf("a 14 MB batch ending in a duplicate id was accepted on badger")
		} else if len(after.([]T)) != len(before.([]T)) {
			f.failf("a 14 MB batch failed (%v) on badger but left %d keys behind (%d before)", err, len(after.([]T)), len(before.([]T)))
		}
		distinct["hugebatch/badger"] = true
		env.destroy()
	}
	// an import far larger than any batch size, with the offending element near its end: the new collection may stay
	// (known finding K-composite) but none of the file's documents may
	for _, be := range backendsOf(backendSpec) {
		env, err := newEnv(be)
		if err != nil {
			continue
		}
		env.db.CreateCollection("other")
		env.db.Insert("other", d.NewDocumentOf(scaleDoc(1)))
		var sb strings.Builder
		sb.WriteString("[")
		for i := 0; i < 2500; i++ {
			if i > 0 {
				sb.WriteString(",")
			}
			id := fmt.Sprintf("%08x-5555-4666-8777-%012x", i, i)
			if i == 2400 {
				id = fmt.Sprintf("%08x-5555-4666-8777-%012x", 7, 7) // a duplicate of element 7
			}
			fmt.Fprintf(&sb, `{"_id":"%s","k":%d}`, id, i)
		}
		sb.WriteString("]")
		path := filepath.Join(env.tmpdir, "bigimport.json")
		os.WriteFile(path, []byte(sb.String()), 0o644)
		err = env.db.ImportCollection("imported", path)
		evals++
		if err == nil {
			f.failf("ImportCollection of 2500 documents with a duplicate _id at position 2400 succeeded on %s", be)
		} else {
			if has, _ := env.db.HasCollection("imported"); has {
				known["K-composite: Import returned an error after its first transaction had committed (the created collection stays)"] = true
				if left, _ := env.db.FindAll(query.NewQuery("imported")); len(left) != 0 {
					f.failf("a failed ImportCollection (%v) left %d of the file's 2500 documents behind on %s", err, len(left), be)
				}
			}
		}
		distinct["bigimport/"+be] = true
		env.destroy()
	}
	files := cs.Write(out, "fault")
	return &RunReport{Stream: "fault", Seed: seed, Evaluations: evals, Distinct: len(distinct),
		Rule:         "one evaluation = one operation executed from a generated state with one store-call position failing (or none), result and full raw key space compared with the model and checked directly (error => unchanged, fault => error, follow-up write succeeds); distinct = distinct (operation kind, kind of failing call, result class)",
		OracleFails:  f.fails, CaseFiles: files, Samples: samples, Known: keysOf(known),
		Distribution: map[string]interface{}{"base_histories": n, "backends": backendsOf(backendSpec), "target_ops": kinds, "failing_call_kinds": positions}}
}

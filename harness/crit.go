package main

// Criteria / query trees with a twin rendering: the real query.Criteria and the model's gcrit term.

import (
	"fmt"
	"strings"

	d "github.com/ostafen/clover/v2/document"
	"github.com/ostafen/clover/v2/query"
	clover "github.com/ostafen/clover/v2"
)

type Operand struct {
	Ref  string      // non-empty name => query.Field(name) reference (IsRef)
	IsRef bool
	Lit  interface{} // Go literal otherwise
}

func (o Operand) goValue() interface{} {
	if o.IsRef {
		return query.Field(o.Ref)
	}
	return o.Lit
}

func (o Operand) term() string {
	if o.IsRef {
		return "(ORef " + gStr(o.Ref) + ")"
	}
	return "(OLit " + gGoval(o.Lit) + ")"
}

type Crit struct {
	Kind  string // cmp exists like in contains fun not and or
	Op    string // OEq OGt OGtEq OLt OLtEq
	Field string
	Val   Operand
	Vals  []Operand
	Pat   string
	Fun   int
	A, B  *Crit
}

// MatchFunc menu: twins of Criteria.v fun_menu
func funMenu(m int) func(doc *d.Document) bool {
	switch m {
	case 0:
		return func(doc *d.Document) bool { return true }
	case 1:
		return func(doc *d.Document) bool { return false }
	case 2:
		return func(doc *d.Document) bool { return doc.Has("a") }
	case 3:
		return func(doc *d.Document) bool { return clover.VerifCompare(doc.Get("a"), doc.Get("b")) > 0 }
	case 4:
		return func(doc *d.Document) bool {
			z, ok := doc.Get("a").(int64)
			return ok && z%2 == 0
		}
	default:
		return func(doc *d.Document) bool { _, ok := doc.Get("b").(string); return ok }
	}
}

func (c *Crit) build() query.Criteria {
	f := query.Field(c.Field)
	switch c.Kind {
	case "cmp":
		v := c.Val.goValue()
		switch c.Op {
		case "OEq":
			return f.Eq(v)
		case "OGt":
			return f.Gt(v)
		case "OGtEq":
			return f.GtEq(v)
		case "OLt":
			return f.Lt(v)
		default:
			return f.LtEq(v)
		}
	case "neq":
		return f.Neq(c.Val.goValue())
	case "notexists":
		return f.NotExists()
	case "exists":
		return f.Exists()
	case "isnil": // the builder's shorthands: IsNil = Eq(nil), IsTrue = Eq(true), IsFalse = Eq(false), IsNilOrNotExists
		return f.IsNil()
	case "istrue":
		return f.IsTrue()
	case "isfalse":
		return f.IsFalse()
	case "isnilornot":
		return f.IsNilOrNotExists()
	case "like":
		return f.Like(c.Pat)
	case "in":
		vs := make([]interface{}, len(c.Vals))
		for i, o := range c.Vals {
			vs[i] = o.goValue()
		}
		return f.In(vs...)
	case "contains":
		vs := make([]interface{}, len(c.Vals))
		for i, o := range c.Vals {
			vs[i] = o.goValue()
		}
		return f.Contains(vs...)
	case "fun":
		// the only public way to build a FunctionOp criteria
		return query.NewQuery("x").MatchFunc(funMenu(c.Fun)).Criteria()
	case "not":
		return c.A.build().Not()
	case "and":
		return c.A.build().And(c.B.build())
	default:
		return c.A.build().Or(c.B.build())
	}
}

func operandList(vs []Operand) string {
	parts := make([]string, len(vs))
	for i, o := range vs {
		parts[i] = o.term()
	}
	return "[" + strings.Join(parts, ";") + "]"
}

func (c *Crit) term() string {
	switch c.Kind {
	case "cmp":
		return fmt.Sprintf("(CCmp %s %s %s)", c.Op, gStr(c.Field), c.Val.term())
	case "neq":
		return fmt.Sprintf("(CNot (CCmp OEq %s %s))", gStr(c.Field), c.Val.term())
	case "notexists":
		return "(CNot (CExists " + gStr(c.Field) + "))"
	case "exists":
		return "(CExists " + gStr(c.Field) + ")"
	case "isnil":
		return fmt.Sprintf("(CCmp OEq %s (OLit GNil))", gStr(c.Field))
	case "istrue":
		return fmt.Sprintf("(CCmp OEq %s (OLit (GBool true)))", gStr(c.Field))
	case "isfalse":
		return fmt.Sprintf("(CCmp OEq %s (OLit (GBool false)))", gStr(c.Field))
	case "isnilornot":
		return fmt.Sprintf("(COr (CCmp OEq %s (OLit GNil)) (CNot (CExists %s)))", gStr(c.Field), gStr(c.Field))
	case "like":
		return fmt.Sprintf("(CLike %s %s)", gStr(c.Field), gStr(c.Pat))
	case "in":
		return fmt.Sprintf("(CIn %s %s)", gStr(c.Field), operandList(c.Vals))
	case "contains":
		return fmt.Sprintf("(CContains %s %s)", gStr(c.Field), operandList(c.Vals))
	case "fun":
		return fmt.Sprintf("(CFun %d)", c.Fun)
	case "not":
		return "(CNot " + c.A.term() + ")"
	case "and":
		return "(CAnd " + c.A.term() + " " + c.B.term() + ")"
	default:
		return "(COr " + c.A.term() + " " + c.B.term() + ")"
	}
}

func (c *Crit) size() int {
	if c == nil {
		return 0
	}
	return 1 + c.A.size() + c.B.size()
}

func (c *Crit) countOps(m map[string]int) {
	if c == nil {
		return
	}
	k := c.Kind
	if k == "cmp" {
		k = c.Op
	}
	m[k]++
	c.A.countOps(m)
	c.B.countOps(m)
}

// ---- queries ----

type SortOpt struct {
	Field string
	Dir   int
}

type QStep struct {
	Kind string // where matchfunc skip limit sort
	C    *Crit
	N    int
	Opts []SortOpt
}

type QSpec struct {
	Coll  string
	Steps []QStep
}

func (q QSpec) build() *query.Query {
	r := query.NewQuery(q.Coll)
	for _, s := range q.Steps {
		switch s.Kind {
		case "where":
			r = r.Where(s.C.build())
		case "matchfunc":
			r = r.MatchFunc(funMenu(s.N))
		case "skip":
			r = r.Skip(s.N)
		case "limit":
			r = r.Limit(s.N)
		case "sort":
			opts := make([]query.SortOption, len(s.Opts))
			for i, o := range s.Opts {
				opts[i] = query.SortOption{Field: o.Field, Direction: o.Dir}
			}
			r = r.Sort(opts...)
		}
	}
	return r
}

func (q QSpec) term() string {
	parts := make([]string, len(q.Steps))
	for i, s := range q.Steps {
		switch s.Kind {
		case "where":
			parts[i] = "(QWhere " + s.C.term() + ")"
		case "matchfunc":
			parts[i] = fmt.Sprintf("(QMatchFunc %d)", s.N)
		case "skip":
			parts[i] = "(QSkip " + gZ(int64(s.N)) + ")"
		case "limit":
			parts[i] = "(QLimit " + gZ(int64(s.N)) + ")"
		case "sort":
			os := make([]string, len(s.Opts))
			for j, o := range s.Opts {
				os[j] = fmt.Sprintf("(%s,%s)", gStr(o.Field), gZ(int64(o.Dir)))
			}
			parts[i] = "(QSort [" + strings.Join(os, ";") + "])"
		}
	}
	return "(" + gStr(q.Coll) + ",[" + strings.Join(parts, ";") + "])"
}

// effective (normalised) view of the query, mirroring query.go
func (q QSpec) effective() (sortOpts []SortOpt, skip, limit int, hasCrit bool) {
	limit = -1
	for _, s := range q.Steps {
		switch s.Kind {
		case "where", "matchfunc":
			hasCrit = true
		case "skip":
			if s.N >= 0 {
				skip = s.N
			}
		case "limit":
			limit = s.N
		case "sort":
			if len(s.Opts) == 0 {
				sortOpts = []SortOpt{{"_id", 1}}
			} else {
				sortOpts = nil
				for _, o := range s.Opts {
					dd := 1
					if o.Dir < 0 {
						dd = -1
					}
					sortOpts = append(sortOpts, SortOpt{o.Field, dd})
				}
			}
		}
	}
	return
}

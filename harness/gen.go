package main

import (
	"math"
	"math/rand"
	"time"
)

// One PRNG; every random choice in a run derives from it.
type Gen struct {
	r     *rand.Rand
	seed0 int64
}

func NewGen(seed int64) *Gen {
	s0 := seed
	if s0 < 0 {
		s0 = -s0
	}
	return &Gen{r: rand.New(rand.NewSource(seed)), seed0: s0}
}

func (g *Gen) Intn(n int) int       { return g.r.Intn(n) }
func (g *Gen) Bool() bool           { return g.r.Intn(2) == 0 }
func (g *Gen) Chance(p float64) bool { return g.r.Float64() < p }
func (g *Gen) Pick(n int) int       { return g.r.Intn(n) }

func pickOf[A any](g *Gen, xs []A) A { return xs[g.Intn(len(xs))] }

var (
	zoneP2   = time.FixedZone("", 2*3600)
	zoneM530 = time.FixedZone("", -(5*3600 + 30*60))
)

// Boundary-rich pool of primitive values.
func poolInts() []interface{} {
	xs := []int64{0, 1, -1, 2, 3, 4, 5, 6, 7, 10, 63, -63, 64, -64, 65, -65, 127, 128, 255, 256, 8191, 8192, -8192, -8193,
		1 << 31, -(1 << 31), 1<<53 - 1, -(1<<53 - 1), 1 << 53, -(1 << 53), 1<<53 + 1, -(1<<53 + 1),
		1<<62 - 1, 1 << 62, math.MaxInt64, math.MinInt64, math.MaxInt64 - 1, math.MinInt64 + 1}
	out := make([]interface{}, 0, len(xs))
	for _, x := range xs {
		out = append(out, x)
	}
	return out
}

func poolUints() []interface{} {
	xs := []uint64{0, 1, 5, 255, 256, 1<<53 + 1, 1<<63 - 1, 1 << 63, 1<<63 + 5, math.MaxUint64, math.MaxUint64 - 1}
	out := make([]interface{}, 0, len(xs))
	for _, x := range xs {
		out = append(out, x)
	}
	return out
}

func poolFloats() []interface{} {
	xs := []float64{0, math.Copysign(0, -1), 1, -1, 0.5, -0.5, 1.5, 2.5, 3, 4, 5, 5.5, 63, 64, -64, -65, 5e-324, -5e-324, 2.2250738585072014e-308,
		math.MaxFloat64, -math.MaxFloat64, math.Inf(1), math.Inf(-1), 1 << 53, 1<<53 + 2, -(1 << 53), 1 << 62, 9.223372036854775807e18, 1e19, 1.8446744073709552e19, 1e300, 255, 256, 1 << 31}
	out := make([]interface{}, 0, len(xs))
	for _, x := range xs {
		out = append(out, x)
	}
	return out
}

func poolStrings() []interface{} {
	xs := []string{"", "a", "ab", "abc", "b", "a\x00", "a\x00b", "a\x00\x00", "\x00", "\x00\x01", "\x00\xff", "\x01", "\xff", "\xff\xff", "\xff\x00", "a\xffb", "a\xff", "\xfe", "ü", "\xc3", "A", "aa"}
	out := make([]interface{}, 0, len(xs))
	for _, x := range xs {
		out = append(out, x)
	}
	return out
}

func poolTimes() []interface{} {
	xs := []time.Time{
		time.Unix(0, 0).UTC(),
		time.Unix(0, 1).UTC(),
		time.Unix(0, -1).UTC(),
		time.Unix(1, 0).UTC(),
		time.Unix(1700000000, 123456789).UTC(),
		time.Unix(1700000000, 123456789).In(zoneP2),
		time.Unix(1700000000, 123456790).In(zoneM530),
		time.Unix(1700000001, 0).In(zoneP2),
		time.Unix(-1000000, 5).UTC(),
		time.Unix(0, math.MaxInt64).UTC(),
		time.Unix(0, math.MinInt64).UTC(),
		time.Unix(0, math.MaxInt64-1).UTC(),
		time.Date(2200, 1, 1, 0, 0, 0, 0, time.UTC),
		time.Date(1800, 1, 1, 0, 0, 0, 0, time.UTC),
		time.Date(1, 1, 1, 0, 0, 0, 0, time.UTC),
		time.Date(9999, 12, 31, 23, 59, 59, 999999999, time.UTC),
		time.Date(2500, 6, 1, 0, 0, 0, 0, zoneP2),
		time.Unix(1700000000, 7).In(time.FixedZone("", 19*60+32)), // a zone offset that is not a whole number of minutes
		time.Unix(1600000000, 0).In(time.FixedZone("LMT", 3*3600+7*60+5)),
	}
	out := make([]interface{}, 0, len(xs))
	for _, x := range xs {
		out = append(out, x)
	}
	return out
}

func arr(xs ...interface{}) []interface{} {
	if xs == nil {
		return []interface{}{}
	}
	return xs
}

func obj(kv ...interface{}) map[string]interface{} {
	m := map[string]interface{}{}
	for i := 0; i+1 < len(kv); i += 2 {
		m[kv[i].(string)] = kv[i+1]
	}
	return m
}

func poolContainers() []interface{} {
	t0 := time.Unix(1700000000, 5).UTC()
	return []interface{}{
		arr(), arr(nil), arr(int64(1)), arr(int64(1), int64(2)), arr(int64(1), int64(2), int64(3)), arr(float64(1)), arr(uint64(1), "a"),
		arr("a"), arr("a", "b"), arr(arr()), arr(arr(), arr()), arr(arr(int64(1))), arr(obj()), arr(true), arr(false, true), arr(t0), arr("\x00"), arr(""), arr("", ""),
		arr(int64(2)), arr(nil, nil), arr(obj("a", int64(1))), arr(arr(int64(1)), int64(0)),
		obj(), obj("a", nil), obj("a", int64(1)), obj("a", int64(1), "b", int64(2)), obj("a", int64(2)), obj("b", int64(1)), obj("ab", int64(0)),
		obj("a", arr()), obj("a", obj()), obj("a", obj("a", nil)), obj("", ""), obj("a\x00", int64(1)), obj("a", "x", "c", t0), obj("a", float64(1)), obj("a", uint64(1), "b", "z"),
	}
}

func poolBools() []interface{} { return []interface{}{false, true} }

func fullPool() []interface{} {
	var p []interface{}
	p = append(p, nil)
	p = append(p, poolBools()...)
	p = append(p, poolInts()...)
	p = append(p, poolUints()...)
	p = append(p, poolFloats()...)
	p = append(p, poolStrings()...)
	p = append(p, poolTimes()...)
	p = append(p, poolContainers()...)
	return p
}

// random nested value over the pool of primitives
func (g *Gen) Prim() interface{} {
	switch g.Intn(12) {
	case 0:
		return nil
	case 1:
		return pickOf(g, poolBools())
	case 2, 3, 4:
		return pickOf(g, poolInts())
	case 5:
		return pickOf(g, poolUints())
	case 6, 7:
		return pickOf(g, poolFloats())
	case 8, 9:
		return pickOf(g, poolStrings())
	case 10:
		return pickOf(g, poolTimes())
	default:
		return int64(g.Intn(10))
	}
}

func (g *Gen) Value(depth int) interface{} {
	if depth <= 0 || g.Chance(0.6) {
		return g.Prim()
	}
	if g.Bool() {
		n := g.Intn(4)
		a := make([]interface{}, n)
		for i := range a {
			a[i] = g.Value(depth - 1)
		}
		return a
	}
	n := g.Intn(4)
	m := map[string]interface{}{}
	keys := []string{"a", "b", "ab", "", "k", "a\x00", "z"}
	for i := 0; i < n; i++ {
		m[pickOf(g, keys)] = g.Value(depth - 1)
	}
	return m
}

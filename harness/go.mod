module vh

go 1.21

require (
	github.com/dgraph-io/badger/v4 v4.2.0
	github.com/ostafen/clover/v2 v2.0.0
)

require (
	github.com/cespare/xxhash/v2 v2.2.0 // indirect
	github.com/dgraph-io/ristretto v0.1.1 // indirect
	github.com/dustin/go-humanize v1.0.1 // indirect
	github.com/gofrs/uuid/v5 v5.0.0 // indirect
	github.com/gogo/protobuf v1.3.2 // indirect
	github.com/golang/glog v1.1.2 // indirect
	github.com/golang/groupcache v0.0.0-20210331224755-41bb18bfe9da // indirect
	github.com/golang/protobuf v1.5.3 // indirect
	github.com/golang/snappy v0.0.4 // indirect
	github.com/google/flatbuffers v23.5.26+incompatible // indirect
	github.com/google/orderedcode v0.0.1 // indirect
	github.com/klauspost/compress v1.17.0 // indirect
	github.com/pkg/errors v0.9.1 // indirect
	github.com/vmihailenco/msgpack/v5 v5.3.5 // indirect
	github.com/vmihailenco/tagparser/v2 v2.0.0 // indirect
	go.etcd.io/bbolt v1.3.7 // indirect
	go.opencensus.io v0.24.0 // indirect
	golang.org/x/net v0.15.0 // indirect
	golang.org/x/sys v0.12.0 // indirect
	google.golang.org/protobuf v1.31.0 // indirect
)

replace github.com/ostafen/clover/v2 => /repo

package main

import "fmt"

// reExecute parses a recorded case term, runs its inputs on the implementation again and returns the
// case term with fresh observations. (Implemented per stream as they come online.)
func reExecute(stream, term string) (string, error) {
	switch stream {
	default:
		return "", fmt.Errorf("replay of stream %q re-runs the whole check: use the 'rerun' command in the replay file", stream)
	}
}

func shrinkGeneric(stream string, seed int64, n, idx int, or *Oracle, prop, tier string) *Shrunk {
	return nil
}

package main

import (
	"fmt"
	"strings"
)

// reExecute is kept for API compatibility: replay re-runs the whole check with the recorded seed (bin/check).
func reExecute(stream, term string) (string, error) {
	return "", fmt.Errorf("replay of stream %q re-runs the check with the recorded seed: bin/check <prop> --replay <file>", stream)
}

// shrinkGeneric minimises a diverging history of the "hist" family by delta debugging on its operations:
// the history is regenerated from the seed, its generated ids are baked into the documents so that it replays
// exactly, and operations are removed while the implementation and the model still disagree.
func shrinkGeneric(stream string, seed int64, n, idx int, or *Oracle, prop, tier string) *Shrunk {
	if !strings.HasPrefix(stream, "hist") {
		return nil
	}
	backends := backendsOf(gBackend)
	hi := idx / len(backends)
	be := backends[idx%len(backends)]
	g := NewGen(histSeed(seed, hi))
	allowClose := be != "badger"
	res, _ := runHistory(g, histCfg(gFocus, tier, allowClose && gFocus == "reopen"), be, false)
	if res.Err != "" {
		return nil
	}
	var ops []*Op
	for _, s := range res.Steps {
		ops = append(ops, s.Op)
	}
	ops = bakeIds(ops)
	fails := func(cand []*Op) (bool, string, string) {
		fresh := make([]*Op, len(cand))
		for i, o := range cand {
			c := *o
			fresh[i] = &c
		}
		r := runOps(fresh, be)
		if r.Err != "" {
			return false, "", ""
		}
		term := r.caseTerm()
		verdict := or.Check(term)
		return verdict != "OK", term, verdict
	}
	bad, term, verdict := fails(ops)
	if !bad {
		return &Shrunk{Stream: stream, Explanation: "the divergence did not reproduce when the history was replayed with its ids baked in (it may depend on generated ids or on timing); re-run the check with the same seed"}
	}
	// ddmin: remove chunks while the disagreement persists, halving the chunk size when nothing can be removed
	for chunk := len(ops) / 2; chunk >= 1; {
		removed := false
		for start := 0; start+chunk <= len(ops); {
			cand := append(append([]*Op{}, ops[:start]...), ops[start+chunk:]...)
			if b, t, v := fails(cand); b {
				ops, term, verdict = cand, t, v
				removed = true
			} else {
				start += chunk
			}
		}
		if !removed {
			chunk /= 2
		} else if chunk > len(ops)/2 {
			chunk = len(ops) / 2
			if chunk < 1 {
				break
			}
		}
	}
	var desc []string
	for _, o := range ops {
		desc = append(desc, clip(o.term(), 400))
	}
	return &Shrunk{Stream: stream, Case: term, ModelSays: verdict,
		Explanation: fmt.Sprintf("minimal history (%d operations, backend %s) on which the implementation and the model disagree; the model verdict names the first differing step [step; 0 = result / 1 = raw key space; model's value]", len(ops), be),
		Extra:       map[string]interface{}{"operations": desc, "backend": be}}
}

package main

// Direct property oracles evaluated on the implementation alone (independent of the model): they
// classify a divergence as a property-level failure and find failing inputs the model comparison misses
// (aliasing of query objects, for instance, which immutable Gallina values cannot express).

import (
	"errors"
	"fmt"
	"reflect"
	"strings"
	"time"

	clover "github.com/ostafen/clover/v2"
	d "github.com/ostafen/clover/v2/document"
	"github.com/ostafen/clover/v2/query"
)

type qSnap struct {
	coll        string
	limit, skip int
	sort        []query.SortOption
	crit        query.Criteria
	critPrint   string // deep rendering of the criteria tree: operators, fields, operand values with their Go types
}

func snapQuery(q *query.Query) qSnap {
	return qSnap{q.Collection(), q.GetLimit(), q.GetSkip(), append([]query.SortOption{}, q.SortOptions()...), q.Criteria(), critFingerprint(q.Criteria())}
}

// the criteria as the caller built it, operand by operand: a read operation that normalises operands IN PLACE
// (int -> int64 inside the caller's In(...) slice, say) changes this rendering without changing the pointer
func critFingerprint(c query.Criteria) string {
	switch x := c.(type) {
	case nil:
		return "nil"
	case *query.UnaryCriteria:
		return fmt.Sprintf("U(%d,%q,%s)", x.OpType, x.Field, valFingerprint(x.Value))
	case *query.NotCriteria:
		return "N(" + critFingerprint(x.C) + ")"
	case *query.BinaryCriteria:
		return fmt.Sprintf("B(%d,%s,%s)", x.OpType, critFingerprint(x.C1), critFingerprint(x.C2))
	}
	return fmt.Sprintf("?%T", c)
}

func valFingerprint(v interface{}) string {
	switch x := v.(type) {
	case nil:
		return "nil"
	case []interface{}:
		parts := make([]string, len(x))
		for i, e := range x {
			parts[i] = valFingerprint(e)
		}
		return "[" + strings.Join(parts, ",") + "]"
	case func(*d.Document) bool:
		return "func"
	case time.Time:
		_, off := x.Zone()
		return fmt.Sprintf("time(%d,%d,%d)", x.Unix(), x.Nanosecond(), off)
	}
	if query.IsField(v) {
		return fmt.Sprintf("field%v", v)
	}
	switch reflect.ValueOf(v).Kind() {
	case reflect.Chan, reflect.Func, reflect.Ptr, reflect.UnsafePointer:
		return fmt.Sprintf("%T", v)
	}
	return fmt.Sprintf("%T:%#v", v, v)
}

func (a qSnap) diff(b qSnap) string {
	switch {
	case a.coll != b.coll:
		return "collection"
	case a.limit != b.limit:
		return fmt.Sprintf("limit %d -> %d", a.limit, b.limit)
	case a.skip != b.skip:
		return fmt.Sprintf("skip %d -> %d", a.skip, b.skip)
	case !reflect.DeepEqual(a.sort, b.sort):
		return "sort options"
	case a.crit != b.crit:
		return "criteria"
	case a.critPrint != b.critPrint:
		return fmt.Sprintf("criteria operands: %s -> %s", clip(a.critPrint, 200), clip(b.critPrint, 200))
	}
	return ""
}

// builderImmutable checks that every builder method returns a new query and leaves its receiver alone
func builderImmutable(q QSpec) string {
	r := query.NewQuery(q.Coll)
	for _, s := range q.Steps {
		before := snapQuery(r)
		var next *query.Query
		switch s.Kind {
		case "where":
			next = r.Where(s.C.build())
		case "matchfunc":
			next = r.MatchFunc(funMenu(s.N))
		case "skip":
			next = r.Skip(s.N)
		case "limit":
			next = r.Limit(s.N)
		case "sort":
			opts := make([]query.SortOption, len(s.Opts))
			for i, o := range s.Opts {
				opts[i] = query.SortOption{Field: o.Field, Direction: o.Dir}
			}
			next = r.Sort(opts...)
		}
		if dd := before.diff(snapQuery(r)); dd != "" {
			return fmt.Sprintf("builder step %s modified its receiver: %s", s.Kind, dd)
		}
		r = next
	}
	return ""
}

func sameDocs(a, b []*d.Document) bool {
	if len(a) != len(b) {
		return false
	}
	return Tstr(docsById(a)) == Tstr(docsById(b))
}

func sameSeq(a, b []*d.Document) bool {
	if len(a) != len(b) {
		return false
	}
	for i := range a {
		if Tstr(tDoc(a[i])) != Tstr(tDoc(b[i])) {
			return false
		}
	}
	return true
}

// the documented order: per option, values by Compare with an absent field ordering together with nil
func cmpDocs(a, b *d.Document, opts []SortOpt) int {
	for _, o := range opts {
		va, vb := a.Get(o.Field), b.Get(o.Field)
		if va == nil && vb == nil && a.Has(o.Field) != b.Has(o.Field) {
			// absent and nil form one group before every other value; their relative order inside the group
			// (a tie through the index, absent first in memory) is not determined by the property
			return 0
		}
		if r := clover.VerifCompare(va, vb); r != 0 {
			if r < 0 {
				return -o.Dir
			}
			return o.Dir
		}
	}
	return 0
}

// readOracles runs, for a query, the derived read operations against FindAll on the same state.
// Returns failure descriptions (empty when the properties hold).
func readOracles(db *clover.DB, q QSpec, bigIntsAway bool) (fails []string) {
	bad := func(f string, a ...interface{}) { fails = append(fails, fmt.Sprintf(f, a...)) }
	defer func() {
		if r := recover(); r != nil {
			bad("a read operation panicked: %v", r)
		}
	}()
	if msg := builderImmutable(q); msg != "" {
		bad("%s", msg)
	}
	// Sort on a query that already has sort options (fewer, as many, none): the receiver and its siblings keep theirs
	{
		base := query.NewQuery(q.Coll).Sort(query.SortOption{Field: "a", Direction: 1}, query.SortOption{Field: "b", Direction: -1})
		sib := base.Limit(3)
		s0, s1 := snapQuery(base), snapQuery(sib)
		_ = base.Sort(query.SortOption{Field: "b", Direction: -1})
		_ = base.Sort()
		_ = sib.Sort(query.SortOption{Field: "x", Direction: 1}, query.SortOption{Field: "s", Direction: 1})
		if dd := s0.diff(snapQuery(base)); dd != "" {
			bad("Sort on a sorted query modified its receiver: %s", dd)
		}
		if dd := s1.diff(snapQuery(sib)); dd != "" {
			bad("Sort on a sorted query modified a query derived from the same base: %s", dd)
		}
	}
	qq := q.build()
	snap := snapQuery(qq)
	all, err := db.FindAll(qq)
	if err != nil {
		return fails
	}
	check := func(what string) {
		if dd := snap.diff(snapQuery(qq)); dd != "" {
			bad("%s modified the query object it was given: %s", what, dd)
			snap = snapQuery(qq)
		}
	}
	check("FindAll")
	opts, skip, limit, hasCrit := q.effective()
	_ = hasCrit
	// C08: sortedness of the result under the documented order
	keysInDom := true // outside the key domain an index-served order is not the comparison order (K-float-key)
	for _, doc := range all {
		for _, o := range opts {
			if !inKeyDom(doc.Get(o.Field)) {
				keysInDom = false
			}
		}
	}
	for i := 1; keysInDom && i < len(all); i++ {
		if len(opts) > 0 && cmpDocs(all[i-1], all[i], opts) > 0 {
			bad("FindAll result not sorted at position %d: %s before %s under %v", i, gValue(all[i-1].AsMap()), gValue(all[i].AsMap()), opts)
			break
		}
	}
	// C01: no duplicates
	seen := map[string]bool{}
	for _, doc := range all {
		if seen[doc.ObjectId()] {
			bad("FindAll returned document %s twice", doc.ObjectId())
			break
		}
		seen[doc.ObjectId()] = true
	}
	// C09: Count, Exists, FindFirst, ForEach
	n, err := db.Count(qq)
	check("Count")
	if err == nil && n != len(all) {
		bad("Count = %d but FindAll returned %d documents", n, len(all))
	}
	ex, err := db.Exists(qq)
	check("Exists")
	first, err2 := db.FindFirst(qq)
	check("FindFirst")
	if err == nil && err2 == nil {
		// the unwindowed-by-limit sequence decides
		base, _ := db.FindAll(qq.Limit(-1))
		if ex != (len(base) > 0) {
			bad("Exists = %v but the query (limit lifted) matches %d documents", ex, len(base))
		}
		if (first != nil) != (len(base) > 0) {
			bad("FindFirst nil=%v but the query (limit lifted) matches %d documents", first == nil, len(base))
		}
		if first != nil && len(base) > 0 && limit != 0 {
			// with a total order (or no sort) the first document is determined
			// FindFirst is FindAll with the limit replaced by 1: the very same plan, hence the very same first document
			if Tstr(tDoc(first)) != Tstr(tDoc(base[0])) {
				bad("FindFirst returned %s, FindAll's first document is %s", first.ObjectId(), base[0].ObjectId())
			}
		}
		// windows are slices of the full sequence when the order is total
		if totalOrNoSort(q) && (skip > 0 || limit >= 0) {
			full, _ := db.FindAll(qq.Skip(0).Limit(-1))
			lo := skip
			if lo > len(full) {
				lo = len(full)
			}
			hi := len(full)
			if limit >= 0 && limit < hi-lo {
				hi = lo + limit
			}
			if !sameSeq(all, full[lo:hi]) {
				bad("Skip(%d).Limit(%d) is not the window [%d,%d) of the unwindowed result (%d documents): got %d", skip, limit, lo, hi, len(full), len(all))
			}
		}
	}
	var visited []*d.Document
	stopAt := 2
	err = db.ForEach(qq, func(doc *d.Document) bool {
		visited = append(visited, doc)
		return len(visited) != stopAt
	})
	check("ForEach")
	if err == nil {
		want := len(all)
		if want > stopAt {
			want = stopAt
		}
		if len(visited) != want {
			bad("ForEach stopped by its consumer after %d documents visited %d (FindAll has %d)", stopAt, len(visited), len(all))
		} else if totalOrNoSort(q) && !sameSeq(visited, all[:want]) {
			bad("ForEach visited a different prefix than FindAll returns")
		}
	}
	// IterateDocs with a consumer that fails: the consumer's own error comes back (on every backend), after a prefix
	var iterSeen []*d.Document
	failAfter := 1 + len(all)/2
	errConsumer := errors.New("consumer failed")
	ierr := db.IterateDocs(qq, func(doc *d.Document) error {
		iterSeen = append(iterSeen, doc)
		if len(iterSeen) == failAfter {
			return errConsumer
		}
		return nil
	})
	check("IterateDocs")
	if len(all) >= failAfter {
		if ierr != errConsumer {
			bad("IterateDocs returned %v instead of the error its consumer returned after %d documents", ierr, failAfter)
		} else if len(iterSeen) != failAfter {
			bad("IterateDocs called its consumer %d times although it failed at call %d", len(iterSeen), failAfter)
		}
	} else if ierr != nil {
		bad("IterateDocs failed with %v although its consumer never did", ierr)
	}
	return fails
}

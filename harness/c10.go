package main

import (
	"bytes"
	"fmt"
	"math"
	"strings"

	clover "github.com/ostafen/clover/v2"
)

func sgn(x int) int64 {
	if x < 0 {
		return -1
	}
	if x > 0 {
		return 1
	}
	return 0
}

// key-order domain of C10: numbers within 2^53, times from 1970 on (and representable as UnixNano), recursively
func inKeyDom(v interface{}) bool {
	switch x := v.(type) {
	case int64:
		return x >= -(1<<53) && x <= 1<<53
	case uint64:
		return x <= 1<<53
	case float64:
		return !math.IsNaN(x)
	case []interface{}:
		for _, e := range x {
			if !inKeyDom(e) {
				return false
			}
		}
	case map[string]interface{}:
		for _, e := range x {
			if !inKeyDom(e) {
				return false
			}
		}
	default:
		if t, ok := asTime(v); ok {
			if t.Unix() < 0 || t.Unix() > (1<<63-1)/1000000000-1 {
				return false
			}
		}
	}
	return true
}

// compare domain of C10: integers beyond 2^53 are not compared against floats
func bigInt(v interface{}) bool {
	switch x := v.(type) {
	case int64:
		return x > 1<<53 || x < -(1<<53)
	case uint64:
		return x > 1<<53
	}
	return false
}
func hasBigInt(v interface{}) bool {
	switch x := v.(type) {
	case []interface{}:
		for _, e := range x {
			if hasBigInt(e) {
				return true
			}
		}
	case map[string]interface{}:
		for _, e := range x {
			if hasBigInt(e) {
				return true
			}
		}
	}
	return bigInt(v)
}
func hasFloat(v interface{}) bool {
	switch x := v.(type) {
	case float64:
		return true
	case []interface{}:
		for _, e := range x {
			if hasFloat(e) {
				return true
			}
		}
	case map[string]interface{}:
		for _, e := range x {
			if hasFloat(e) {
				return true
			}
		}
	}
	return false
}

type c10Result struct {
	pool        []interface{}
	signs       [][]int64
	keys        [][]byte
	oracleFails []string
	pairs       int
	triples     int
}

func runC10(seed int64, extra int) *c10Result {
	g := NewGen(seed)
	pool := fullPool()
	for i := 0; i < extra; i++ {
		pool = append(pool, g.Value(3))
	}
	n := len(pool)
	res := &c10Result{pool: pool}
	res.signs = make([][]int64, n)
	res.keys = make([][]byte, n)
	for i := 0; i < n; i++ {
		res.signs[i] = make([]int64, n)
		for j := 0; j < n; j++ {
			res.signs[i][j] = sgn(clover.VerifCompare(pool[i], pool[j]))
			res.pairs++
		}
		k, err := clover.VerifOrderedCode(pool[i])
		if err != nil {
			k = []byte("ERR:" + err.Error())
		}
		// prefix with the type-id digit, as the index key does
		res.keys[i] = append([]byte(fmt.Sprintf("%d|", clover.VerifTypeId(pool[i]))), k...)
	}
	fail := func(f string, a ...interface{}) {
		if len(res.oracleFails) < 20 {
			res.oracleFails = append(res.oracleFails, fmt.Sprintf(f, a...))
		}
	}
	// direct oracles on the implementation (independent of the model)
	for i := 0; i < n; i++ {
		if res.signs[i][i] != 0 {
			fail("reflexivity: compare(%s,%s)=%d", gValue(pool[i]), gValue(pool[i]), res.signs[i][i])
		}
		for j := 0; j < n; j++ {
			if res.signs[i][j] != -res.signs[j][i] {
				fail("antisymmetry: compare(%s,%s)=%d but reverse=%d", gValue(pool[i]), gValue(pool[j]), res.signs[i][j], res.signs[j][i])
			}
			// key order agreement inside key_dom
			if inKeyDom(pool[i]) && inKeyDom(pool[j]) {
				kc := int64(bytes.Compare(res.keys[i], res.keys[j]))
				if kc != res.signs[i][j] {
					fail("key order: compare(%s,%s)=%d but key order=%d", gValue(pool[i]), gValue(pool[j]), res.signs[i][j], kc)
				}
				// prefix-freeness of unequal keys (so appending the id keeps the order)
				if kc != 0 && (bytes.HasPrefix(res.keys[i], res.keys[j]) || bytes.HasPrefix(res.keys[j], res.keys[i])) {
					fail("key prefix: keys of %s and %s are prefix related", gValue(pool[i]), gValue(pool[j]))
				}
			}
		}
	}
	// transitivity over all triples in the compare domain
	inDom := func(a, b interface{}) bool {
		return !((hasBigInt(a) && hasFloat(b)) || (hasBigInt(b) && hasFloat(a)))
	}
	for i := 0; i < n; i++ {
		for j := 0; j < n; j++ {
			if res.signs[i][j] > 0 || !inDom(pool[i], pool[j]) {
				continue
			}
			for k := 0; k < n; k++ {
				if res.signs[j][k] > 0 || !inDom(pool[j], pool[k]) || !inDom(pool[i], pool[k]) {
					continue
				}
				res.triples++
				// i<=j, j<=k  =>  i<=k ; and strict if either strict
				if res.signs[i][k] > 0 || (res.signs[i][k] == 0 && (res.signs[i][j] < 0 || res.signs[j][k] < 0)) {
					fail("transitivity: %s <= %s <= %s but compare(first,last)=%d", gValue(pool[i]), gValue(pool[j]), gValue(pool[k]), res.signs[i][k])
				}
			}
		}
	}
	return res
}

// caseTerm renders the sweep restricted to the pool positions in idx as a term of type hcase.
func (r *c10Result) caseTerm(idx []int) string {
	var sb strings.Builder
	sb.WriteString("(HC10 [")
	for i, p := range idx {
		if i > 0 {
			sb.WriteString(";")
		}
		sb.WriteString(gValue(r.pool[p]))
	}
	sb.WriteString("] ")
	signs := make([]T, len(idx))
	keys := make([]T, len(idx))
	for i, p := range idx {
		row := make([]T, len(idx))
		for j, q := range idx {
			row[j] = r.signs[p][q]
		}
		signs[i] = row
		keys[i] = TB(r.keys[p])
	}
	sb.WriteString(TListInline(signs) + " " + TListInline(keys) + ")")
	return sb.String()
}

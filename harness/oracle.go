package main

import (
	"bufio"
	"io"
	"os/exec"
	"regexp"
	"strconv"
	"strings"
)

// Oracle is a persistent subprocess running the extracted model.
type Oracle struct {
	cmd *exec.Cmd
	in  io.WriteCloser
	out *bufio.Reader
}

func StartOracle(path string) *Oracle {
	cmd := exec.Command(path)
	in, _ := cmd.StdinPipe()
	outp, _ := cmd.StdoutPipe()
	if err := cmd.Start(); err != nil {
		panic(err)
	}
	return &Oracle{cmd: cmd, in: in, out: bufio.NewReaderSize(outp, 1<<20)}
}

// Check returns the oracle's verdict line for one case term ("OK" or "MISMATCH ...").
func (o *Oracle) Check(term string) string {
	io.WriteString(o.in, strings.ReplaceAll(term, "\n", " ")+"\n")
	line, err := o.out.ReadString('\n')
	if err != nil {
		return "ORACLE-ERROR " + err.Error()
	}
	return strings.TrimSpace(line)
}

func (o *Oracle) Close() {
	o.in.Close()
	o.cmd.Wait()
}

var firstNums = regexp.MustCompile(`-?\d+`)

// leading integers of a MISMATCH line, e.g. "MISMATCH [[3;0;[...]]]" -> [3 0 ...]
func mismatchInts(line string, n int) []int {
	m := firstNums.FindAllString(line, n)
	out := make([]int, 0, len(m))
	for _, s := range m {
		v, _ := strconv.Atoi(s)
		out = append(out, v)
	}
	return out
}

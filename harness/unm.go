package main

// C18, last clause: "a struct converted to a document and unmarshalled back is unchanged".
// Reflect-filled values of a pool of struct types go through NewDocumentOf and Document.Unmarshal; the result is
// compared with the model's Unmarshal (Model/Unmarshal.v: clover's type-directed renaming + the encoding/json
// round trip) and checked directly: inside the round-trip domain Normalize(q) = Normalize(p), and Unmarshal never
// modifies the document it reads.

import (
	"fmt"
	"math"
	"reflect"
	"strings"
	"time"

	clover "github.com/ostafen/clover/v2"
	d "github.com/ostafen/clover/v2/document"
)

type UAddr struct {
	Zip  string `clover:"zip"`
	City string `clover:"town"`
	N    int8   `clover:"n,omitempty"`
}
type UBase struct {
	Id  uint32
	Tag string `clover:"label"`
}
type UA struct {
	Name string `clover:"name"`
	Addr UAddr
}
type UB struct {
	Full string `clover:"nm"`
	Addr UAddr  `clover:"where"`
	L    []UAddr
	M    map[string]UAddr
	P    *UAddr
	UBase
	T      time.Time
	TP     *time.Time `clover:"tp,omitempty"`
	I8     int8
	U      uint64
	F      float32
	D      float64
	Any    interface{}
	O      int `clover:"o,omitempty"`
	Arr    [2]UAddr
	PP     **UAddr
	secret int
}
type UC struct {
	*UBase
	Z float32
}
type UD struct {
	X int `clover:"y"`
	Y int `clover:"x"`
}
type UE struct {
	X int `clover:"Y"`
	Y int `clover:"Q"`
}
type UJ struct {
	N string `clover:"nm" json:"jn"`
	K int    `json:"k2,omitempty"`
	P *UAddr `clover:"addr" json:"a"`
}
type UJOpt struct {
	Visits int    `clover:"n_visits,omitempty" json:",omitempty"`
	Home   *UAddr `clover:"home_addr" json:",omitempty"`
	Plain  string `json:",omitempty"`
}
type UNest struct {
	In struct {
		Deep UAddr `clover:"deep"`
		L    []*UAddr
	} `clover:"in"`
	Top string
}
type UMapPtr struct {
	M map[string]*UAddr
	S [][]UAddr
	A [1]map[string]UAddr
}
type UOmit struct {
	S  string            `clover:"s,omitempty"`
	B  bool              `clover:"b,omitempty"`
	F  float64           `clover:"f,omitempty"`
	P  *UAddr            `clover:"p,omitempty"`
	L  []int             `clover:"l,omitempty"`
	M  map[string]string `clover:"m,omitempty"`
	I  interface{}       `clover:"i,omitempty"`
	St UAddr             `clover:"st,omitempty"`
}
type UIface struct {
	I interface{}
	J interface{} `clover:"j"`
}
type UNums struct {
	A   int
	B   int16
	C   int32
	D   int64
	E   uint
	F   uint8
	G   uint16
	H   uint32
	I   uint64
	F32 float32
	F64 float64
}
type UTime struct {
	T time.Time
	P *time.Time
	L []time.Time
	M map[string]time.Time
}
type UDeep struct {
	UC    `clover:"ignored"`
	Inner UB `clover:"inner"`
	List  []UC
}

var unmTypes = []reflect.Type{
	reflect.TypeOf(UAddr{}), reflect.TypeOf(UBase{}), reflect.TypeOf(UA{}), reflect.TypeOf(UB{}), reflect.TypeOf(UC{}),
	reflect.TypeOf(UD{}), reflect.TypeOf(UE{}), reflect.TypeOf(UJ{}), reflect.TypeOf(UJOpt{}), reflect.TypeOf(UNest{}), reflect.TypeOf(UMapPtr{}),
	reflect.TypeOf(UOmit{}), reflect.TypeOf(UIface{}), reflect.TypeOf(UNums{}), reflect.TypeOf(UTime{}), reflect.TypeOf(UDeep{}),
}

// ---- Go types as terms of the model's gotype ----

func gGotype(t reflect.Type) (string, bool) {
	if t == timeType {
		return "TyTime", true
	}
	switch t.Kind() {
	case reflect.Int, reflect.Int8, reflect.Int16, reflect.Int32, reflect.Int64:
		return fmt.Sprintf("(TyInt %d)", intBits(t.Kind())), true
	case reflect.Uint, reflect.Uint8, reflect.Uint16, reflect.Uint32, reflect.Uint64:
		return fmt.Sprintf("(TyUint %d)", intBits(t.Kind())), true
	case reflect.Float32:
		return "TyFloat32", true
	case reflect.Float64:
		return "TyFloat64", true
	case reflect.String:
		return "TyString", true
	case reflect.Bool:
		return "TyBool", true
	case reflect.Interface:
		return "TyIface", t.NumMethod() == 0
	case reflect.Ptr:
		s, ok := gGotype(t.Elem())
		return "(TyPtr " + s + ")", ok
	case reflect.Slice:
		s, ok := gGotype(t.Elem())
		return "(TySlice " + s + ")", ok
	case reflect.Array:
		s, ok := gGotype(t.Elem())
		return fmt.Sprintf("(TyArray %d %s)", t.Len(), s), ok
	case reflect.Map:
		s, ok := gGotype(t.Elem())
		return "(TyMap " + s + ")", ok && t.Key().Kind() == reflect.String
	case reflect.Struct:
		parts := make([]string, t.NumField())
		ok := true
		for i := 0; i < t.NumField(); i++ {
			f := t.Field(i)
			ft, fok := gGotype(f.Type)
			ok = ok && fok
			jt := "None"
			if j, has := f.Tag.Lookup("json"); has {
				jt = "(Some " + gStr(j) + ")"
			}
			parts[i] = fmt.Sprintf("(TField %s %s %s %s %s %s)", gStr(f.Name), gBool(f.PkgPath == ""), gStr(f.Tag.Get("clover")), jt, gBool(f.Anonymous), ft)
		}
		return "(TyStruct [" + strings.Join(parts, ";") + "])", ok
	}
	return "TyIface", false
}

// ---- reflect-driven filling; *rt is cleared when the value leaves the round-trip domain ----

var unmStrings = []string{"", "a", "Zed", "x y", "q\"uote", "back\\slash", "tab\there", "<html>&"}

func fillValue(g *Gen, v reflect.Value, depth int, rt *bool) {
	t := v.Type()
	if t == timeType {
		tv := pickOf(g, []time.Time{time.Unix(1700000000, 5).UTC(), time.Unix(1700000000, 123456789).In(zoneP2), time.Unix(0, 0).UTC(),
			time.Date(1, 1, 1, 0, 0, 0, 0, time.UTC), time.Date(9999, 12, 31, 23, 59, 59, 999999999, time.UTC), time.Unix(-1000000, 5).In(zoneM530), {}})
		if g.Chance(0.04) {
			tv = pickOf(g, []time.Time{time.Unix(1700000000, 7).In(time.FixedZone("", 19*60+32)), time.Date(12000, 1, 1, 0, 0, 0, 0, time.UTC), time.Date(-5, 1, 1, 0, 0, 0, 0, time.UTC)})
			*rt = false
		}
		v.Set(reflect.ValueOf(tv))
		return
	}
	switch t.Kind() {
	case reflect.Int, reflect.Int8, reflect.Int16, reflect.Int32, reflect.Int64:
		bits := t.Bits()
		z := pickOf(g, []int64{0, 1, -1, int64(g.Intn(100)), -int64(g.Intn(100)), math.MaxInt64 >> (64 - uint(bits)), math.MinInt64 >> (64 - uint(bits))})
		v.SetInt(z)
	case reflect.Uint, reflect.Uint8, reflect.Uint16, reflect.Uint32, reflect.Uint64:
		bits := t.Bits()
		z := pickOf(g, []uint64{0, 1, uint64(g.Intn(200)), math.MaxUint64 >> (64 - uint(bits)), 1 << uint(bits-1)})
		if bits == 8 {
			z = z & 0xff
		}
		v.SetUint(z)
	case reflect.Float32:
		v.SetFloat(float64(pickOf(g, []float32{0, 1.5, -2.25, float32(g.Intn(1000)) / 8, 3.4e38, 1e-30, float32(math.Copysign(0, -1))})))
	case reflect.Float64:
		x := pickOf(g, []float64{0, 1.5, -2.25, float64(g.Intn(100000)) / 16, 1e300, 5e-324, math.Copysign(0, -1), 1 << 53, 1e21, 123456789012})
		if g.Chance(0.03) {
			x = pickOf(g, []float64{math.NaN(), math.Inf(1)})
			*rt = false
		}
		v.SetFloat(x)
	case reflect.String:
		v.SetString(pickOf(g, unmStrings))
	case reflect.Bool:
		v.SetBool(g.Bool())
	case reflect.Interface:
		switch g.Intn(7) {
		case 0:
			// nil
		case 1:
			v.Set(reflect.ValueOf(pickOf(g, unmStrings)))
		case 2:
			v.Set(reflect.ValueOf(g.Bool()))
		case 3:
			v.Set(reflect.ValueOf(float64(g.Intn(64)) / 4))
		case 4:
			v.Set(reflect.ValueOf(int(g.Intn(9)))) // comes back as float64
			*rt = false
		case 5:
			v.Set(reflect.ValueOf([]interface{}{"a", 1.5, nil}))
		default:
			v.Set(reflect.ValueOf(map[string]interface{}{"k": "v", "n": nil}))
		}
	case reflect.Ptr:
		if depth <= 0 || g.Chance(0.3) {
			return
		}
		p := reflect.New(t.Elem())
		fillValue(g, p.Elem(), depth-1, rt)
		v.Set(p)
	case reflect.Slice:
		if g.Chance(0.2) {
			return // nil slice
		}
		n := g.Intn(3)
		if depth <= 0 {
			n = 0
		}
		s := reflect.MakeSlice(t, n, n)
		for i := 0; i < n; i++ {
			fillValue(g, s.Index(i), depth-1, rt)
		}
		v.Set(s)
	case reflect.Array:
		for i := 0; i < v.Len(); i++ {
			fillValue(g, v.Index(i), depth-1, rt)
		}
	case reflect.Map:
		if g.Chance(0.2) {
			return
		}
		m := reflect.MakeMap(t)
		n := g.Intn(3)
		if depth <= 0 {
			n = 0
		}
		for i := 0; i < n; i++ {
			e := reflect.New(t.Elem()).Elem()
			fillValue(g, e, depth-1, rt)
			m.SetMapIndex(reflect.ValueOf(pickOf(g, []string{"k", "K2", "a b", ""})).Convert(t.Key()), e)
		}
		v.Set(m)
	case reflect.Struct:
		for i := 0; i < t.NumField(); i++ {
			if t.Field(i).PkgPath != "" {
				continue
			}
			fillValue(g, v.Field(i), depth-1, rt)
		}
	}
}

// an embedded POINTER to a struct all of whose fields are zero is not restored (encoding/json allocates it
// only when one of its fields is present) and an embedded nil pointer is stored as an explicit nil under the
// type's name: outside the round-trip domain when the pointee normalises to nothing / for UDeep's tagged embedding
func embeddedPtrEdge(v reflect.Value) bool {
	t := v.Type()
	if t.Kind() == reflect.Ptr {
		if v.IsNil() {
			return false
		}
		return embeddedPtrEdge(v.Elem())
	}
	switch t.Kind() {
	case reflect.Struct:
		if t == timeType {
			return false
		}
		for i := 0; i < t.NumField(); i++ {
			f := t.Field(i)
			if f.PkgPath != "" {
				continue
			}
			if f.Anonymous && f.Type.Kind() == reflect.Ptr && f.Type.Elem().Kind() == reflect.Struct && !v.Field(i).IsNil() {
				if n, err := clover.VerifNormalize(v.Field(i).Interface()); err == nil {
					if m, isMap := n.(map[string]interface{}); isMap && len(m) == 0 {
						return true
					}
				}
			}
			if embeddedPtrEdge(v.Field(i)) {
				return true
			}
		}
	case reflect.Slice, reflect.Array:
		for i := 0; i < v.Len(); i++ {
			if embeddedPtrEdge(v.Index(i)) {
				return true
			}
		}
	case reflect.Map:
		for _, k := range v.MapKeys() {
			if embeddedPtrEdge(v.MapIndex(k)) {
				return true
			}
		}
	case reflect.Interface:
		return false
	}
	return false
}

// struct shapes outside the round-trip domain (rt_extra in Proofs/UnmarshalProofs.v; each has a machine-checked
// _refuted witness): an embedded MAP type is flattened by Normalize but is a named field for encoding/json; an
// omitempty pointer to a nil pointer is stored as nil and then comes back as a nil outer pointer, which is omitted
type UMapT map[string]int
type UEmbMap struct{ UMapT }
type UOmitPP struct {
	P **int `clover:"p,omitempty"`
}

func unmarshalKnownShapes(known map[string]bool) {
	rt := func(p interface{}, q interface{}) (string, string) {
		doc := d.NewDocumentOf(p)
		before := Tstr(tValue(doc.AsMap()))
		if err := doc.Unmarshal(q); err != nil {
			return before, "error " + err.Error()
		}
		return before, Tstr(normObs(reflect.ValueOf(q).Elem().Interface()))
	}
	if b, a := rt(UEmbMap{UMapT{"x": 1}}, &UEmbMap{}); !strings.Contains(a, b) {
		known["K-unmarshal-shapes: struct{ M } with an embedded map type M does not survive NewDocumentOf + Unmarshal (Normalize flattens the map into the parent, encoding/json expects it under its name)"] = true
	}
	var np *int
	if b, a := rt(UOmitPP{&np}, &UOmitPP{}); !strings.Contains(a, b) {
		known["K-unmarshal-shapes: an omitempty field of type **T pointing at a nil pointer is stored as nil and comes back as a nil pointer that is then omitted"] = true
	}
}

// a document that holds a scalar where the target has a struct (old free-text field, new structured one), or an array
// mixing objects and scalars where it has a slice of structs: Unmarshal reports an error, it never panics
func unmarshalShapeMismatches(cs *CaseSet, f *failer, evals *int) {
	for _, c := range []struct {
		m      map[string]interface{}
		target reflect.Type
	}{
		{map[string]interface{}{"name": "n", "Addr": "free text"}, reflect.TypeOf(UA{})},
		{map[string]interface{}{"nm": "f", "where": int64(5), "L": []interface{}{map[string]interface{}{"zip": "1"}, "scalar", nil}}, reflect.TypeOf(UB{})},
		{map[string]interface{}{"M": map[string]interface{}{"k": "not an object"}, "P": true}, reflect.TypeOf(UB{})},
		{map[string]interface{}{"in": "text", "Top": "t"}, reflect.TypeOf(UNest{})},
		{map[string]interface{}{"S": []interface{}{[]interface{}{"x"}}, "A": []interface{}{"y"}}, reflect.TypeOf(UMapPtr{})},
		{map[string]interface{}{"Arr": []interface{}{int64(1), map[string]interface{}{"zip": "z"}}, "PP": "s"}, reflect.TypeOf(UB{})},
	} {
		doc := d.NewDocumentOf(copyCanon(c.m))
		q := reflect.New(c.target)
		var err error
		panicked := ""
		func() {
			defer func() {
				if r := recover(); r != nil {
					panicked = fmt.Sprint(r)
				}
			}()
			err = doc.Unmarshal(q.Interface())
		}()
		*evals++
		if panicked != "" {
			f.failf("Unmarshal of %s into %s panicked: %s", clip(gValue(c.m), 200), c.target, panicked)
			continue
		}
		var obs T
		if err != nil {
			obs = []T{int64(3)}
		} else {
			obs = normObs(q.Elem().Interface())
		}
		if tyTerm, ok := gGotype(c.target); ok {
			cs.Add(fmt.Sprintf("(HUnm %s %s %s)", tyTerm, gObj(c.m), Tstr(obs)), false)
		}
	}
}

func runUnmarshalCases(g *Gen, rounds int, cs *CaseSet, f *failer, evals *int, outcomes map[string]int, samples *[]interface{}, known map[string]bool) {
	unmarshalKnownShapes(known)
	unmarshalShapeMismatches(cs, f, evals)
	for i := 0; i < rounds; i++ {
		for ti, t := range unmTypes {
			rt := true
			p := reflect.New(t).Elem()
			fillValue(g, p, 3, &rt)
			if embeddedPtrEdge(p) {
				rt = false
			}
			doc := d.NewDocumentOf(p.Interface())
			if doc == nil {
				f.failf("NewDocumentOf(%s) returned nil", t)
				continue
			}
			// the target: the same type, or (cross) another type of the pool
			target := t
			cross := g.Chance(0.2)
			if cross {
				target = unmTypes[(ti+1+g.Intn(len(unmTypes)-1))%len(unmTypes)]
			}
			before := Tstr(tValue(doc.AsMap()))
			beforeMap := copyCanon(doc.AsMap()).(map[string]interface{})
			q := reflect.New(target)
			var err error
			panicked := ""
			func() {
				defer func() {
					if r := recover(); r != nil {
						panicked = fmt.Sprint(r)
					}
				}()
				err = doc.Unmarshal(q.Interface())
			}()
			*evals++
			if panicked != "" {
				f.failf("Unmarshal of a %s document into %s panicked: %s", t, target, panicked)
				continue
			}
			if after := Tstr(tValue(doc.AsMap())); after != before {
				f.failf("Unmarshal into %s modified the document it read: %s became %s", target, clip(gValue(beforeMap), 400), clip(gValue(doc.AsMap()), 400))
			}
			var obs T
			if err != nil {
				obs = []T{int64(3)}
				outcomes["error"]++
			} else {
				obs = normObs(q.Elem().Interface())
				outcomes["ok"]++
			}
			if tyTerm, ok := gGotype(target); ok && nonCanonical(doc.AsMap()) == "" && !strings.Contains(Tstr(obs), "(TZ 2)") {
				cs.Add(fmt.Sprintf("(HUnm %s %s %s)", tyTerm, gObj(beforeMap), Tstr(obs)), i == 0 && !cross)
			}
			if !cross {
				want := normObs(p.Interface())
				if rt {
					outcomes["roundtrip-domain"]++
					if err != nil {
						f.failf("Unmarshal of NewDocumentOf(%s value) into the same type failed: %v; document %s", t, err, clip(gValue(beforeMap), 500))
					} else if Tstr(want) != Tstr(obs) {
						f.failf("a %s converted to a document and unmarshalled back differs: document of the original %s, of the result %s", t, clip(Tstr(want), 600), clip(Tstr(obs), 600))
					}
				}
			}
			if len(*samples) < 4 && i == 0 && ti%4 == 1 {
				*samples = append(*samples, map[string]string{"go_type": t.String(), "document": clip(gValue(beforeMap), 300), "unmarshalled_then_normalised": clip(Tstr(obs), 300)})
			}
		}
	}
}

package main

import (
	"fmt"
	"path/filepath"
	"strings"
)

// CaseSet collects hcase terms; all go to cases.txt (oracle), a subset to sample.v (vm_compute in Coq).
type CaseSet struct {
	All    []string
	Sample []string
}

func (cs *CaseSet) Add(term string, sample bool) {
	cs.All = append(cs.All, term)
	if sample {
		cs.Sample = append(cs.Sample, term)
	}
}

func (cs *CaseSet) Write(dir, stream string) []string {
	var sb strings.Builder
	for _, c := range cs.All {
		sb.WriteString(strings.ReplaceAll(c, "\n", " "))
		sb.WriteString("\n")
	}
	writeFile(filepath.Join(dir, "cases_"+stream+".txt"), sb.String())
	var v strings.Builder
	v.WriteString("From Clover Require Import Cases.\nOpen Scope Z_scope.\nDefinition cases : list hcase := [\n")
	for i, c := range cs.Sample {
		if i > 0 {
			v.WriteString(";\n")
		}
		v.WriteString(c)
	}
	v.WriteString("].\nDefinition bad := Eval vm_compute in bad_cases 0 cases.\nPrint bad.\n")
	writeFile(filepath.Join(dir, "sample_"+stream+".v"), v.String())
	return []string{fmt.Sprintf("cases_%s.txt", stream), fmt.Sprintf("sample_%s.v", stream)}
}

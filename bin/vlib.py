#!/usr/bin/env python3
"""Shared machinery of the clover verification checks.

A check = (1) the Coq development builds and the property's theorems are closed under the global
context, (2) the Go harness, rebuilt against /repo's working tree, runs the property's streams on the
implementation, (3) the extracted model (OCaml oracle) and a vm_compute sample inside Coq are run on
the same cases, (4) disagreements and direct oracle failures are turned into a verdict + evidence.
"""
import json, os, re, shutil, subprocess, sys, time, hashlib

VERIF = os.path.dirname(os.path.dirname(os.path.abspath(__file__)))
REPO = os.environ.get('VERIF_REPO', '/repo')
COQ = os.path.join(VERIF, 'coq')
ORACLE_DIR = os.path.join(VERIF, 'oracle')
HARNESS = os.path.join(VERIF, 'harness')
WORK = os.path.join(VERIF, 'work')
EVID = os.path.join(VERIF, 'evidence')
QFLAGS = []
for d in ('Base', 'Model', 'Spec', 'Proofs', 'Properties', 'Harness'):
    QFLAGS += ['-Q', os.path.join(COQ, 'theories', d), 'Clover']

GOENV = dict(os.environ, GOFLAGS='-mod=mod', GOPROXY='off', GOSUMDB='off', GOTOOLCHAIN='local',
             CGO_ENABLED=os.environ.get('CGO_ENABLED', '0'))


def log(*a):
    print(*a, file=sys.stderr, flush=True)


def run(cmd, cwd=None, env=None, timeout=None, stdin=None, check=False):
    p = subprocess.run(cmd, cwd=cwd, env=env, timeout=timeout, input=stdin,
                       stdout=subprocess.PIPE, stderr=subprocess.PIPE, text=True)
    if check and p.returncode != 0:
        raise RuntimeError('command failed: %s\n%s\n%s' % (' '.join(cmd), p.stdout[-3000:], p.stderr[-3000:]))
    return p


# ---------------------------------------------------------------- Coq
def coq_sources():
    out = []
    for root, _, files in os.walk(os.path.join(COQ, 'theories')):
        for f in files:
            if f.endswith('.v'):
                out.append(os.path.join(root, f))
    out.append(os.path.join(COQ, 'extraction', 'Extract.v'))
    return sorted(out)


def coq_hash():
    h = hashlib.sha256()
    for f in coq_sources() + [os.path.join(COQ, '_CoqProject')]:
        h.update(f.encode()); h.update(open(f, 'rb').read())
    return h.hexdigest()[:16]


FORBIDDEN = re.compile(r'\b(Admitted|admit|Axiom|Parameter|Conjecture|Unset Guard|bypass_check|type-in-type|Admit Obligations)\b')


def grep_gate():
    """No Admitted/admit/Axiom/... anywhere in the development (comments excluded)."""
    bad = []
    for f in coq_sources():
        txt = open(f).read()
        txt = re.sub(r'\(\*.*?\*\)', '', txt, flags=re.S)
        for i, line in enumerate(txt.split('\n')):
            if FORBIDDEN.search(line):
                bad.append('%s:%d: %s' % (f, i + 1, line.strip()))
    return bad


def build_coq():
    """Full .vo build (coq_makefile + make). Returns (ok, log)."""
    if not os.path.exists(os.path.join(COQ, 'Makefile')) or \
       os.path.getmtime(os.path.join(COQ, 'Makefile')) < os.path.getmtime(os.path.join(COQ, '_CoqProject')):
        run(['coq_makefile', '-f', '_CoqProject', '-o', 'Makefile'], cwd=COQ, check=True)
    p = run(['timeout', '3000', 'make', '-j16'], cwd=COQ)
    open(os.path.join(COQ, 'build.log'), 'a').write(p.stdout + p.stderr)
    return p.returncode == 0, (p.stdout + p.stderr)[-4000:]


def build_oracle():
    """Extract the model and build the OCaml oracle (only when the Coq sources changed)."""
    stamp = os.path.join(ORACLE_DIR, '.stamp')
    h = coq_hash() + hashlib.sha256(b''.join(open(os.path.join(ORACLE_DIR, f), 'rb').read()
                                             for f in ('ast.ml', 'driver.ml', 'gen_conv.py'))).hexdigest()[:8]
    if os.path.exists(stamp) and open(stamp).read() == h and os.path.exists(os.path.join(ORACLE_DIR, 'oracle')):
        return
    run(['coqc'] + QFLAGS + [os.path.join(COQ, 'extraction', 'Extract.v')], cwd=ORACLE_DIR, check=True)
    p = run(['python3', 'gen_conv.py', 'hcase'], cwd=ORACLE_DIR, check=True)
    open(os.path.join(ORACLE_DIR, 'conv.ml'), 'w').write(p.stdout)
    run(['ocamlfind', 'ocamlopt', '-package', 'zarith', '-linkpkg', '-O2', '-w', '-a',
         'model.mli', 'model.ml', 'ast.ml', 'conv.ml', 'driver.ml', '-o', 'oracle'], cwd=ORACLE_DIR, check=True)
    open(stamp, 'w').write(h)


def theorem_status(prop):
    """Compile Properties/<prop>.v; every Theorem in it is an obligation and must be followed by a
    Print Assumptions that reports it closed. Returns (obligations, discharged, report, problems)."""
    vfile = os.path.join(COQ, 'theories', 'Properties', prop + '.v')
    problems = []
    if not os.path.exists(vfile):
        return 0, 0, [], ['no theorem registered for %s (missing %s)' % (prop, vfile)]
    src = re.sub(r'\(\*.*?\*\)', '', open(vfile).read(), flags=re.S)
    names = re.findall(r'\b(?:Theorem|Lemma|Corollary)\s+(\w+)', src)
    if not names:
        return 0, 0, [], ['no theorem stated in ' + vfile]
    p = run(['timeout', '900', 'coqc'] + QFLAGS + [vfile], cwd=COQ)
    out = p.stdout + p.stderr
    if p.returncode != 0:
        return len(names), 0, [], ['coqc failed on %s: %s' % (vfile, out[-1500:])]
    pa = re.findall(r'Print Assumptions\s+(\w+)\s*\.', src)
    blocks = re.split(r'(?=Closed under the global context|Axioms:)', out)
    blocks = [b for b in blocks if b.startswith('Closed under') or b.startswith('Axioms:')]
    report = []
    discharged = 0
    allowed = {'functional_extensionality_dep', 'eq_rect_eq', 'JMeq_eq', 'classic', 'proof_irrelevance'}
    for n in names:
        if n not in pa:
            problems.append('no Print Assumptions for ' + n)
            continue
        idx = pa.index(n)
        if idx >= len(blocks):
            problems.append('no assumptions output for ' + n)
            continue
        b = blocks[idx].strip()
        if b.startswith('Closed under the global context'):
            discharged += 1
            report.append('%s: Closed under the global context' % n)
        else:
            axs = re.findall(r'^\s*([\w.]+)\s*:', b, flags=re.M)
            if axs and all(a.split('.')[-1] in allowed for a in axs):
                discharged += 1
                report.append('%s: stdlib axioms %s' % (n, ','.join(axs)))
            else:
                problems.append('%s depends on %s' % (n, ','.join(axs) or b[:200]))
    return len(names), discharged, report, problems


# ---------------------------------------------------------------- Go harness
# The harness binary is per property (vh_<prop>): a check never overwrites the executable another check is running.
# Builds (Coq make, oracle, go build) are serialised across concurrent checks by a file lock.
VH = ['vh']
VH_RACE = ['vh_race']


def set_harness_names(prop):
    VH[0] = 'vh_' + prop
    VH_RACE[0] = 'vh_race_' + prop


class build_lock:
    def __enter__(self):
        import fcntl
        os.makedirs(WORK, exist_ok=True)
        self.f = open(os.path.join(WORK, '.buildlock'), 'w')
        fcntl.flock(self.f, fcntl.LOCK_EX)
        return self

    def __exit__(self, *a):
        import fcntl
        fcntl.flock(self.f, fcntl.LOCK_UN)
        self.f.close()


def build_harness(race=False):
    shutil.copy(os.path.join(REPO, 'go.sum'), os.path.join(HARNESS, 'go.sum'))
    if race:
        p = run(['go', 'build', '-race', '-tags', 'verif', '-o', VH_RACE[0], '.'], cwd=HARNESS, env=dict(GOENV, CGO_ENABLED='1'))
    else:
        p = run(['go', 'build', '-tags', 'verif', '-o', VH[0], '.'], cwd=HARNESS, env=GOENV)
    return p.returncode == 0, (p.stdout + p.stderr)[-4000:]


def run_stream(stream, seed, n, outdir, extra=(), name=None):
    os.makedirs(outdir, exist_ok=True)
    # a stream that does not finish (an operation of the implementation blocks where the harness has no deadline of its
    # own) is reported like a crash: the harness has a watchdog (exit 3), this timeout is the backstop
    thorough = 'thorough' in list(extra)
    try:
        p = run([os.path.join(HARNESS, VH[0]), stream, '--seed', str(seed), '--n', str(n), '--out', outdir] + list(extra),
                cwd=HARNESS, env=GOENV, timeout=(6 * 3600 if thorough else 900))
    except subprocess.TimeoutExpired as e:
        return None, 'stream %s did not finish within %ds: blocked\n%s' % (stream, e.timeout, ((e.stderr or b'')[-3000:] if isinstance(e.stderr, bytes) else (e.stderr or '')[-3000:]))
    rep_path = os.path.join(outdir, 'report_%s.json' % (name or stream))
    if p.returncode != 0 or not os.path.exists(rep_path):
        return None, (p.stdout + p.stderr)[-4000:]
    return json.load(open(rep_path)), (p.stdout + p.stderr)[-2000:]


def run_oracle(cases_file, shards=16):
    """Run the extracted model over the cases. Returns (n_cases, list of (line_no, text))."""
    lines = open(cases_file).read().split('\n')
    lines = [l for l in lines if l.strip()]
    if not lines:
        return 0, []
    shards = max(1, min(shards, len(lines)))
    chunks = [[] for _ in range(shards)]
    for i, l in enumerate(lines):
        chunks[i % shards].append((i, l))
    procs = []
    for ch in chunks:
        pr = subprocess.Popen([os.path.join(ORACLE_DIR, 'oracle')], stdin=subprocess.PIPE, stdout=subprocess.PIPE,
                              stderr=subprocess.PIPE, text=True)
        procs.append((pr, ch))
    import threading
    results = [None] * len(procs)

    def work(k):
        pr, ch = procs[k]
        out, err = pr.communicate('\n'.join(l for _, l in ch) + '\n')
        results[k] = (out, err, pr.returncode)
    ths = [threading.Thread(target=work, args=(k,)) for k in range(len(procs))]
    [t.start() for t in ths]
    [t.join() for t in ths]
    bad = []
    for k, (pr, ch) in enumerate(procs):
        out, err, rc = results[k]
        outs = [l for l in out.split('\n') if l]
        if rc != 0 or len(outs) != len(ch):
            bad.append((ch[0][0], 'ORACLE-CRASH rc=%s got %d of %d lines: %s' % (rc, len(outs), len(ch), err[-500:])))
            continue
        for (i, _), o in zip(ch, outs):
            if o != 'OK':
                bad.append((i, o))
    bad.sort()
    return len(lines), bad


def run_sample_coq(sample_v):
    """Evaluate the sample inside Coq with vm_compute. Returns (ok, text)."""
    d = os.path.dirname(sample_v)
    p = run(['timeout', '900', 'coqc'] + QFLAGS + [sample_v], cwd=d)
    out = p.stdout + p.stderr
    ok = p.returncode == 0 and re.search(r'bad\s*=\s*\[\]', out) is not None
    return ok, out[-2000:]


# ---------------------------------------------------------------- known findings
def load_known():
    path = os.path.join(VERIF, 'known_findings.json')
    if not os.path.exists(path):
        return []
    return json.load(open(path)).get('findings', [])


# ---------------------------------------------------------------- evidence
def write_evidence(prop, tier, seed, coverage, assumptions, wall, violations):
    os.makedirs(EVID, exist_ok=True)
    ev = {
        'property_id': prop, 'tier': tier, 'seed': int(seed), 'level': 'proof',
        'coverage': coverage, 'assumptions': assumptions, 'wall_s': round(wall, 2), 'violations': violations,
    }
    json.dump(ev, open(os.path.join(EVID, prop + '.json'), 'w'), indent=1, default=str)


_TIER = ['quick']


def vlib_set_tier(t):
    _TIER[0] = t


def write_replay(prop, seed, tag, content):
    d = os.path.join(EVID, 'replays')
    os.makedirs(d, exist_ok=True)
    content = dict(content)
    content.setdefault('seed', int(seed))
    content.setdefault('tier', _TIER[0])
    content.setdefault('replay_cmd', 'bin/check %s --replay <this file>   (re-runs: VERIF_SEED=%s bin/check %s %s)' % (prop, seed, prop, _TIER[0]))
    path = os.path.join(d, '%s-%s-%s.json' % (prop, seed, tag))
    json.dump(content, open(path, 'w'), indent=1, default=str)
    return path


# ---------------------------------------------------------------- coqchk (thorough tier)
def run_coqchk():
    """Independent re-check of the compiled development with coqchk, once per source hash."""
    h = coq_hash()
    cache = os.path.join(WORK, 'coqchk_%s.txt' % h)
    os.makedirs(WORK, exist_ok=True)
    if os.path.exists(cache):
        txt = open(cache).read()
        return txt.startswith('OK'), txt
    mods = []
    for f in sorted(os.listdir(os.path.join(COQ, 'theories', 'Properties'))):
        if f.endswith('.v'):
            mods.append('Clover.' + f[:-2])
    p = run(['timeout', '5400', 'coqchk', '-silent', '-o'] + QFLAGS + mods, cwd=COQ)
    out = (p.stdout + p.stderr)
    ok = p.returncode == 0
    txt = ('OK\n' if ok else 'FAILED\n') + out[-6000:]
    open(cache, 'w').write(txt)
    return ok, txt

#!/usr/bin/env python3
"""Regenerate MANIFEST.json from bin/props.py (claimed properties) and the not-applicable list."""
import json, os, sys
sys.path.insert(0, os.path.dirname(os.path.abspath(__file__)))
from props import PROPS, TRUSTED_BASE, NOTES, NOT_APPLICABLE

VERIF = os.path.dirname(os.path.dirname(os.path.abspath(__file__)))
checks = []
CLAIMED = [p for p in sorted(PROPS) if os.path.exists(os.path.join(VERIF, 'coq', 'theories', 'Properties', p + '.v'))]
for pid in CLAIMED:
    cfg = PROPS[pid]
    note = NOTES.get(pid, {})
    checks.append({
        'property_id': pid,
        'quick_cmd': 'bin/check %s quick' % pid,
        'thorough_cmd': 'bin/check %s thorough' % pid,
        'evidence_file': 'evidence/%s.json' % pid,
        'replay_cmd_template': 'bin/check %s --replay {path}' % pid,
        'engine': 'coq-model+correspondence',
        'level_claimed': {
            'category': 'proof',
            'text': note.get('text', 'Theorems in coq/theories/Properties/%s.v about the executable Gallina model, closed under the global context; the model is tied to /repo on every run by a differential correspondence check (extracted model + in-Coq vm_compute sample vs the implementation on generated inputs) and by direct property oracles on the implementation.' % pid),
            'design_ref': note.get('design_ref', 'DESIGN.md section 6, ' + pid),
        },
        'level_note': note.get('note', '') + ' Trusted base: Coq kernel+VM; ExtrOcamlBasic extraction and OCaml driver; Go harness; hand transcription Go->Gallina (modelled, not verified); third-party contracts (bbolt/badger, msgpack, gob, json, orderedcode re-implemented, regexp subset, uuid). ' + '; '.join(cfg.get('assumptions', [])),
        'technique': note.get('technique', 'Coq proof over a hand-written executable model + differential correspondence with the Go implementation'),
    })
m = {
    'version': 1,
    'setup_cmd': 'bin/setup',
    'hooks': {
        'guard': 'verif',
        'enable': 'the harness is built with `go build -tags verif` against /repo (replace directive); /repo/verif_hooks.go (build tag verif, add-only) exports internal Compare/TypeId/OrderedCode/Normalize/normalizeCriteria',
        'baseline_off_cmd': 'cd /repo && go test -json -vet=off -count=1 -timeout 25m ./...',
        'source_commits': HOOK_COMMITS if (HOOK_COMMITS := [l.split()[0] for l in os.popen("git -C /repo log --oneline --grep='verif hook'").read().strip().split('\n') if l]) else [],
        'add_only': True,
    },
    'engines': [
        {'name': 'coq-model+correspondence', 'path': 'coq/ oracle/ harness/ bin/check',
         'serves_properties': CLAIMED, 'kind_free_text': 'Coq 8.16.1 development (model, spec, proofs, property files), OCaml oracle extracted from it, Go differential harness'},
    ],
    'checks': checks,
    'not_applicable': [{'property_id': p, 'reason': r} for p, r in sorted(NOT_APPLICABLE.items()) if p not in CLAIMED] + [{'property_id': p, 'reason': 'check under construction: correspondence streams exist, theorems being assembled'} for p in sorted(PROPS) if p not in CLAIMED],
    'notes': 'See DESIGN.md. known_findings.json lists recorded and fixed defects.',
}
json.dump(m, open(os.path.join(VERIF, 'MANIFEST.json'), 'w'), indent=1)
print('wrote MANIFEST.json with %d checks, %d not_applicable' % (len(checks), len(m['not_applicable'])))

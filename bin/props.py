"""Per-property configuration: streams (with sizes per tier), trusted base, assumptions."""

TRUSTED_BASE = [
    'Coq 8.16.1 kernel and VM (vm_compute); coqchk as independent re-check in the thorough tier; native_compute not used',
    'Extraction with ExtrOcamlBasic only (bool,option,unit,list,prod,sumbool,sumor mapped to OCaml; andb/orb inlined); Z,N,positive,nat stay inductive; OCaml 4.13.1 + zarith (decimal<->binary conversion of numerals only); oracle/ast.ml term parser, generated oracle/conv.ml readers',
    'Go harness (generators, canonicaliser, store wrapper, differ, shrinker) in /verif/harness',
    'hand transcription of the Go sources into coq/theories/Model/*.v, tied to /repo only by the correspondence runs',
    'third-party contracts: bbolt/badger as ordered maps with atomic isolated transactions; msgpack, gob, encoding/json as faithful round-trips; google/orderedcode re-implemented byte for byte and compared on every index key',
]

PROPS = {
    'C10': {
        'streams': [{'name': 'c10', 'quick': 40, 'thorough': 600}],
        'assumptions': ['no NaN; integers beyond 2^53 are not compared against floats (transitivity); key-order agreement inside key_dom: numbers within 2^53, times from 1970 on'],
    },
}

"""Per-property configuration: streams (with sizes per tier), trusted base, assumptions."""

TRUSTED_BASE = [
    'Coq 8.16.1 kernel and VM (vm_compute inside some proofs and for the in-Coq sample); coqchk as independent re-check in the thorough tier; native_compute not used',
    'Extraction with ExtrOcamlBasic only (Extract Inductive bool,option,unit,list,prod,sumbool,sumor to OCaml natives; Extract Inlined Constant andb => (&&), orb => (||)); Z,N,positive,nat,comparison stay Coq inductives; OCaml 4.13.1 + zarith (decimal<->binary conversion of numerals only); oracle/ast.ml term parser, generated oracle/conv.ml readers, oracle/driver.ml',
    'Go harness in /verif/harness: generators, canonicaliser, recording store wrapper, differ, shrinker, direct property oracles',
    'hand transcription of the Go sources into coq/theories/Model/*.v (modelled, not verified), tied to /repo only by the correspondence runs of this check',
    'third-party contracts (modelled by contract): bbolt/badger as ordered maps with atomic isolated transactions; msgpack, gob, encoding/json as faithful round-trips; google/orderedcode re-implemented byte for byte and compared on every index key; regexp restricted to the modelled sub-language; uuid.FromString as a predicate',
]

HIST = lambda name, q, t, args=None: {'name': name, 'cmd': 'hist', 'quick': q, 'thorough': t, 'args': ['--backend', 'all'] + (args or [])}

PROPS = {
    'C04': {
        'streams': [{'name': 'fault', 'quick': 3, 'thorough': 25, 'args': ['--backend', 'all']}],
        'assumptions': ['fault points = every store call the operation makes through the store interface (begin, get, set, delete, cursor, cursor item read, commit); Seek/Next/Valid/Rollback/Close cannot fail in either adapter',
                        'lock release after a failure is exercised by the harness (follow-up write with a deadline), not modelled'],
    },
    'C05': {
        'streams': [{'name': 'crash', 'quick': 3, 'thorough': 20},
                    {'name': 'hist_reopen', 'cmd': 'hist', 'quick': 30, 'thorough': 300, 'args': ['--backend', 'bbolt,badgerdisk', '--focus', 'reopen']}],
        'assumptions': ['the store commit itself is atomic and durable (bbolt meta-page swap + fsync, badger WAL): premise, not provable here; fsync, power loss and torn pages are outside the model and outside what a process kill exercises'],
    },
    'C10': {
        'streams': [{'name': 'c10', 'quick': 40, 'thorough': 600}],
        'assumptions': ['no NaN; transitivity on triples where integers beyond 2^53 are not mixed with floats (cmp_dom3); key-order agreement inside key_dom: numbers within 2^53, times 1970..2262'],
    },
    'C11': {
        'streams': [{'name': 'c11', 'quick': 40, 'thorough': 400, 'args': ['--backend', 'all']}],
        'assumptions': ['msgpack and gob are identities on wire values (contract; exercised by every read-back)'],
    },
    'C16': {
        'streams': [{'name': 'c16', 'quick': 400, 'thorough': 6000}],
        'assumptions': ['literal-kind invariance under cmp_dom3 (no NaN; big integers not mixed with floats)'],
    },
    'C18': {
        'streams': [{'name': 'c18', 'quick': 6, 'thorough': 80}],
        'assumptions': ['Document.Unmarshal (encoding/json with struct tags) is not modelled: covered by the harness only'],
    },
}

NOTES = {
    'C04': {'technique': 'Coq proof that every write body commits last and errors propagate (no catch) + exhaustive store-call fault enumeration against the implementation on both backends'},
    'C05': {'technique': 'Coq proof of crash atomicity of single-transaction operations (fault simulation lemma) + interruption at every store call on on-disk bbolt, SIGKILL runs, close/reopen histories'},
    'C10': {'technique': 'Coq proof (nested induction on values; composition laws for the byte encoders) + exhaustive pair/triple sweep of a boundary pool against the implementation'},
    'C11': {'technique': 'Coq proof of decode(encode d) = d on the wire model + read-back differential on both backends before/after reopen'},
    'C16': {'technique': 'Coq proof of the Boolean/operator/literal laws of the criteria evaluator + law-pair and model differential on Satisfy'},
    'C18': {'technique': 'Coq proof of canonicity/idempotence/struct-tag/path laws of the Normalize model + reflect-built Go values differential'},
}

# properties not (yet) claimed: reason
NOT_APPLICABLE = {
    'C01': 'check under construction in this session (history correspondence exists; theorems pending)',
    'C02': 'check under construction in this session', 'C03': 'check under construction in this session',
    'C06': 'check under construction in this session', 'C07': 'check under construction in this session',
    'C08': 'check under construction in this session', 'C09': 'check under construction in this session',
    'C12': 'check under construction in this session', 'C13': 'check under construction in this session',
    'C14': 'check under construction in this session', 'C15': 'check under construction in this session',
    'C17': 'check under construction in this session', 'C19': 'check under construction in this session',
    'C20': 'check under construction in this session',
}

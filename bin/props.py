"""Per-property configuration: streams (with sizes per tier), trusted base, assumptions."""

TRUSTED_BASE = [
    'Coq 8.16.1 kernel and VM (vm_compute inside some proofs and for the in-Coq sample); coqchk as independent re-check in the thorough tier; native_compute not used',
    'Extraction with ExtrOcamlBasic only (Extract Inductive bool,option,unit,list,prod,sumbool,sumor to OCaml natives; Extract Inlined Constant andb => (&&), orb => (||)); Z,N,positive,nat,comparison stay Coq inductives; OCaml 4.13.1 + zarith (decimal<->binary conversion of numerals only); oracle/ast.ml term parser, generated oracle/conv.ml readers, oracle/driver.ml',
    'Go harness in /verif/harness: generators, canonicaliser, recording store wrapper, differ, shrinker, direct property oracles',
    'hand transcription of the Go sources into coq/theories/Model/*.v (modelled, not verified), tied to /repo only by the correspondence runs of this check',
    'third-party contracts (modelled by contract): bbolt/badger as ordered maps with atomic isolated transactions; msgpack, gob, encoding/json as faithful round-trips; google/orderedcode re-implemented byte for byte and compared on every index key; regexp restricted to the modelled sub-language; uuid.FromString as a predicate',
]

HIST = lambda name, q, t, args=None: {'name': name, 'cmd': 'hist', 'quick': q, 'thorough': t, 'args': (args or []) if '--backend' in (args or []) else ['--backend', 'all'] + (args or [])}

PROPS = {
    'C01': {
        'streams': [HIST('hist', 120, 1500), HIST('hist_index', 80, 1000, ['--focus', 'index']),
                    {'name': 'scale', 'quick': 1, 'thorough': 2, 'args': ['--backend', 'all']},
                    {'name': 'c10', 'quick': 15, 'thorough': 200}, {'name': 'c16', 'quick': 150, 'thorough': 2000},
                    {'name': 'idx', 'quick': 5, 'thorough': 60, 'args': ['--backend', 'all']}, {'name': 'twin', 'quick': 3, 'thorough': 30, 'args': ['--backend', 'all']},
                    {'name': 'c11', 'quick': 8, 'thorough': 80, 'args': ['--backend', 'all']}],
        'assumptions': ['values in the supported domain, no NaN; names without ";"; canonical 36-character ids; Like patterns restricted to the modelled regexp sub-language in runs; for planner soundness: one numeric regime (integers beyond 2^53 not mixed with floats)'],
    },
    'C02': {
        'streams': [{'name': 'twin', 'quick': 8, 'thorough': 80, 'args': ['--backend', 'all']}, HIST('hist_index', 60, 800, ['--focus', 'index']),
                    {'name': 'c10', 'quick': 15, 'thorough': 200}, {'name': 'idx', 'quick': 5, 'thorough': 60, 'args': ['--backend', 'all']}],
        'assumptions': ['indexed values inside key_dom (numbers within 2^53, times 1970..2262): outside it index keys do not sort like compare (known finding K-float-key, C10_key_order_outside_dom_refuted)',
                        'for an unsorted skip/limit window the property promises a count, not an identity (C08): twins are compared on counts there'],
    },
    'C03': {
        'streams': [{'name': 'scale', 'quick': 1, 'thorough': 3, 'args': ['--backend', 'all']}, HIST('hist_bulk', 80, 1000, ['--focus', 'bulk']), {'name': 'conc', 'quick': 6, 'thorough': 80, 'args': ['--backend', 'all']}],
        'assumptions': ['the behaviour of a live bbolt/badger cursor under mutation is outside the model (snapshot cursors); the scale runs tie that assumption to the code'],
    },
    'C04': {
        'streams': [{'name': 'fault', 'quick': 3, 'thorough': 25, 'args': ['--backend', 'all']}],
        'assumptions': ['fault points = every store call the operation makes through the store interface (begin, get, set, delete, cursor, cursor item read, commit); Seek/Next/Valid/Rollback/Close cannot fail in either adapter',
                        'lock release after a failure is exercised by the harness (follow-up write with a deadline), not modelled'],
    },
    'C05': {
        'streams': [{'name': 'crash', 'quick': 3, 'thorough': 20},
                    {'name': 'fault', 'quick': 3, 'thorough': 10, 'args': ['--backend', 'all']},
                    {'name': 'scale', 'quick': 1, 'thorough': 2, 'args': ['--backend', 'bbolt,badgerdisk']},
                    {'name': 'hist_reopen', 'cmd': 'hist', 'quick': 30, 'thorough': 300, 'args': ['--backend', 'bbolt,badgerdisk', '--focus', 'reopen']},
                    {'name': 'hist_catalog', 'cmd': 'hist', 'quick': 30, 'thorough': 300, 'args': ['--backend', 'bbolt,badgerdisk', '--focus', 'catalog']}],
        'assumptions': ['the store commit itself is atomic and durable (bbolt meta-page swap + fsync, badger WAL): premise, not provable here; fsync, power loss and torn pages are outside the model and outside what a process kill exercises'],
    },
    'C06': {
        'streams': [HIST('hist', 120, 1500), HIST('hist_catalog', 60, 600, ['--focus', 'catalog']), {'name': 'scale', 'quick': 1, 'thorough': 3, 'args': ['--backend', 'all']},
                    {'name': 'conc', 'quick': 10, 'thorough': 150, 'args': ['--backend', 'all']},
                    {'name': 'fault', 'quick': 1, 'thorough': 4, 'args': ['--backend', 'all']}],
        'assumptions': ['names without ";", canonical ids'],
    },
    'C07': {
        'streams': [{'name': 'conc', 'quick': 25, 'thorough': 400, 'args': ['--backend', 'all']}],
        'race': True,
        'assumptions': ['partial: the theorem covers the transaction-structure logic (every operation is one store transaction under single-writer / snapshot-reader discipline); data races, the Go memory model, goroutine scheduling and badger conflict detection cannot be exhibited by an executable Gallina model and are covered by the harness only (-race build, perturbed schedules, linearizability search)'],
    },
    'C08': {
        'streams': [HIST('hist_sort', 120, 1500, ['--focus', 'sort']), {'name': 'scale', 'quick': 1, 'thorough': 3, 'args': ['--backend', 'all']},
                    {'name': 'twin', 'quick': 3, 'thorough': 30, 'args': ['--backend', 'all']}, {'name': 'idx', 'quick': 5, 'thorough': 60, 'args': ['--backend', 'all']}],
        'assumptions': ['sortedness inside one numeric regime (integers beyond 2^53 not mixed with floats: otherwise compare is not transitive, C08 needs C10); ties (compare-equal keys, absent vs nil) are free'],
    },
    'C09': {
        'streams': [HIST('hist', 120, 1500), HIST('hist_sort', 60, 600, ['--focus', 'sort']), {'name': 'scale', 'quick': 1, 'thorough': 3, 'args': ['--backend', 'all']}],
        'assumptions': ['"does not alter the query object" is about aliasing: immutable Gallina values make it true by construction in the model; that clause is covered by the harness snapshot of query getters only'],
    },
    'C10': {
        'streams': [{'name': 'c10', 'quick': 40, 'thorough': 600}, {'name': 'idx', 'quick': 5, 'thorough': 60, 'args': ['--backend', 'all']}, {'name': 'twin', 'quick': 3, 'thorough': 30, 'args': ['--backend', 'all']}],
        'assumptions': ['no NaN; transitivity on triples where integers beyond 2^53 are not mixed with floats (cmp_dom3); key-order agreement inside key_dom: numbers within 2^53, times 1970..2262'],
    },
    'C11': {
        'streams': [{'name': 'c11', 'quick': 40, 'thorough': 400, 'args': ['--backend', 'all']}, {'name': 'conc', 'quick': 6, 'thorough': 80, 'args': ['--backend', 'all']},
                    {'name': 'c18', 'quick': 3, 'thorough': 30}],
        'assumptions': ['msgpack and gob are identities on wire values (contract; exercised by every read-back)'],
    },
    'C12': {
        'streams': [HIST('hist_ids', 120, 1500, ['--focus', 'ids']), {'name': 'fault', 'quick': 1, 'thorough': 4, 'args': ['--backend', 'all']}],
        'assumptions': ['canonical ids in the theorems (uuid.FromString also accepts braced/urn/32-hex forms, outside the property domain)'],
    },
    'C13': {
        'streams': [HIST('hist_catalog', 120, 1500, ['--focus', 'catalog']), {'name': 'scale', 'quick': 1, 'thorough': 3, 'args': ['--backend', 'all']}, {'name': 'json', 'quick': 4, 'thorough': 40, 'args': ['--backend', 'all']}, {'name': 'conc', 'quick': 6, 'thorough': 80, 'args': ['--backend', 'all']}],
        'assumptions': ['names free of ";" (valid UTF-8 in runs, because the metadata record is JSON)'],
    },
    'C14': {
        'streams': [HIST('hist_catalog', 100, 1200, ['--focus', 'catalog']), HIST('hist_index', 60, 600, ['--focus', 'index']),
                    {'name': 'twin', 'quick': 4, 'thorough': 40, 'args': ['--backend', 'all']}],
        'assumptions': ['field names free of ";"'],
    },
    'C15': {
        'streams': [{'name': 'cursor', 'quick': 40, 'thorough': 600}, {'name': 'scale', 'quick': 1, 'thorough': 2, 'args': ['--backend', 'bbolt,badger,badgerdisk']}, {'name': 'hist_be', 'cmd': 'hist', 'quick': 40, 'thorough': 400, 'args': ['--backend', 'bbolt,badger,badgerdisk']}],
        'assumptions': ['the libraries behind the adapters (bbolt Cursor.Seek/Next/Prev/Last, badger Iterator) are modelled by their documented cursor semantics; the empty seek key is excluded (badger documents it as rewind; clover never seeks it)'],
    },
    'C16': {
        'streams': [{'name': 'c16', 'quick': 400, 'thorough': 6000}, HIST('hist_index', 60, 600, ['--focus', 'index']),
                    {'name': 'twin', 'quick': 3, 'thorough': 30, 'args': ['--backend', 'all']}],
        'assumptions': ['literal-kind invariance under cmp_dom3 (no NaN; big integers not mixed with floats)'],
    },
    'C17': {
        'streams': [{'name': 'idx', 'quick': 10, 'thorough': 150, 'args': ['--backend', 'all']}],
        'assumptions': ['key_dom on indexed values and bounds; ranges with at least one non-nil bound plus the nil-only range; an INCLUDED nil bound is read as the value nil (as the code does), an excluded one as unbounded'],
    },
    'C18': {
        'streams': [{'name': 'c18', 'quick': 6, 'thorough': 80}, {'name': 'c11', 'quick': 12, 'thorough': 120, 'args': ['--backend', 'all']}],
        'assumptions': ['Document.Unmarshal: clover\'s type-directed renaming is transcribed; the encoding/json round trip into a typed target is modelled by contract (Model/Unmarshal.v jdecode) inside the domain rt_ty/type_ok (ASCII names and strings, times with year 0..9999 and whole-minute offsets, finite floats, no []byte, json names distinct up to case); outside it the model answers undetermined and only the direct oracles apply'],
    },
    'C19': {
        'streams': [{'name': 'json', 'quick': 12, 'thorough': 150, 'args': ['--backend', 'all']}],
        'assumptions': ['partial: encoding/json text layer is an inverse pair (contract); the theorems cover the JSON typing function and the transaction structure of import/export'],
    },
    'C20': {
        'streams': [HIST('hist', 100, 1200), HIST('hist_catalog', 50, 500, ['--focus', 'catalog']), HIST('hist_reopen', 20, 200, ['--backend', 'bbolt,badgerdisk', '--focus', 'reopen']),
                    {'name': 'json', 'quick': 4, 'thorough': 40, 'args': ['--backend', 'all']}, {'name': 'scale', 'quick': 1, 'thorough': 2, 'args': ['--backend', 'all']}, {'name': 'c11', 'quick': 8, 'thorough': 80, 'args': ['--backend', 'all']},
                    {'name': 'c18', 'quick': 3, 'thorough': 30}, {'name': 'conc', 'quick': 4, 'thorough': 40, 'args': ['--backend', 'all']}],
        'assumptions': ['safety-only: the model is total and returns a declared result class for every operation; only panic sites the transcription makes explicit are covered by the theorem, the rest by recover() and deadlines around every public call in every stream'],
    },
}

NOTES = {
    'C01': {'technique': 'Coq proof: scans feed exactly the stored documents that pass the criteria; planner range soundness; refinement of FindAll to the abstract database + history differential on both backends'},
    'C02': {'technique': 'Coq proof of planner soundness (negation push-down, range derivation, intersection) and index-order = value order + twin-collection differential over seven index configurations'},
    'C03': {'technique': 'Coq proof of the bulk rewrite loop against the abstract selection semantics + scale runs with invocation counting and raw key audits'},
    'C04': {'technique': 'Coq proof that every write body commits last and errors propagate (no catch) + exhaustive store-call fault enumeration against the implementation on both backends'},
    'C05': {'technique': 'Coq proof of crash atomicity of single-transaction operations (fault simulation lemma) + interruption at every store call on on-disk bbolt, SIGKILL runs, close/reopen histories'},
    'C06': {'technique': 'Coq refinement invariant R (store = what the abstract database denotes) preserved by the operations + raw key-space comparison after every operation of generated histories'},
    'C07': {'technique': 'Coq proof of linearizability of the single-writer/snapshot-reader transaction discipline for any sequential spec + concurrent histories checked by a linearizability search and the race detector'},
    'C08': {'technique': 'Coq proof: sort node output is a sorted permutation, skip/limit node is exactly the window, builder option laws + sort-focused history differential with key-tuple sequences'},
    'C09': {'technique': 'Coq proof that Count/Exists/FindFirst/ForEach are functions of the FindAll sequence + direct agreement oracles and query-object snapshots on the implementation'},
    'C10': {'technique': 'Coq proof (nested induction on values; composition laws for the byte encoders) + exhaustive pair/triple sweep of a boundary pool against the implementation'},
    'C11': {'technique': 'Coq proof of decode(encode d) = d on the wire model + read-back differential on both backends before/after reopen'},
    'C12': {'technique': 'Coq refinement of Insert/UpdateById to the abstract database (unique ids, id immutability, FindById returns its own id) + id-reuse history differential'},
    'C13': {'technique': 'Coq proof of the key algebra (prefix-related names never collide) and refinement of the catalog operations + catalog-focused history differential with raw key dumps'},
    'C14': {'technique': 'Coq proof of index-prefix exactness (x / xy, n / n.a) and catalog refinement + history differential with sibling indexes'},
    'C15': {'technique': 'Coq proof that both cursor adapters meet the ordered-map cursor contract + store-level differential of bbolt / badger (memory, disk) and identical histories on all backends'},
    'C16': {'technique': 'Coq proof of the Boolean/operator/literal laws of the criteria evaluator + law-pair and model differential on Satisfy'},
    'C17': {'technique': 'Coq proof that a range scan visits exactly the in-range entries in order (both directions, all bound kinds) and of the range algebra + direct RangeIndex differential on both backends'},
    'C18': {'technique': 'Coq proof of canonicity/idempotence/struct-tag/path laws of the Normalize model and of the struct -> document -> Unmarshal round trip over a model of Go types + reflect-built Go values and reflect-filled struct differential'},
    'C19': {'technique': 'Coq proof of the JSON typing laws and of import/export transaction structure + export/import round trips and failure paths on both backends'},
    'C20': {'technique': 'Coq proof that every operation of the total model returns a declared result class in every state + recover() and deadlines around every public call of every stream'},
}

# properties not (yet) claimed: reason
NOT_APPLICABLE = {}
